#!/usr/bin/env python3
"""C03 program grammar: one fixture under test + one usage construct per program, all feature
assignments with at most k off-default dimensions; expected records by oracle/extract.py."""
import sys, json, argparse
sys.path.insert(0, __file__.rsplit("/", 1)[0])
from common import deviations, emit
from extract import extract

DECOS = [("pytest.fixture", False), ("fixture", False), ("pytest_asyncio.fixture", False),
         ("pytest.fixture", True), ("fixture", True), ("pytest_asyncio.fixture", True),
         "stack_before", "stack_after", "look_other.fixture", "look_pytest.fixtures", "look_name"]
DIMS = [
 ("decorator", ["pytest.fixture", "fixture", "pytest_asyncio.fixture", "pytest.fixture()", "fixture()", "pytest_asyncio.fixture()", "stacked-before", "stacked-after", "lookalike other.fixture", "lookalike pytest.fixtures", "lookalike fixture_factory"]),
 ("name_kw", ["none", 'name="renamed"']),
 ("scope", ["none", "function", "class", "module", "package", "session", "other-literal", "non-literal"]),
 ("autouse", ["none", "True", "False"]),
 ("async", ["def", "async def"]),
 ("placement", ["module", "test-class", "plain-class", "nested-in-function"]),
 ("params", ["none", "one", "many", "posonly", "kwonly", "defaults", "annotated", "varargs", "request", "kwonly-default-between-requests", "all-defaulted", "posonly-defaulted"]),
 ("body", ["return", "yield", "yield-in-with", "yield-in-async-with", "yield-in-try", "yield-in-except", "yield-in-else", "yield-in-finally", "yield-in-for", "yield-in-while", "yield-in-if", "yield-in-elif", "x=yield", "yield-from", "yield-in-nested-def", "yield-in-lambda", "try-then-yield", "if-then-yield", "for-then-yield", "while-then-yield", "with-then-yield", "try-finally-then-yield-in-if", "match-then-yield", "yield-in-match", "yield-in-try-star", "yield-in-except-star",
          "yields-in-except-and-else", "yields-in-body-and-except", "yields-in-else-and-finally", "yields-in-if-and-else", "yields-in-for-and-else", "yields-in-while-and-else",
          "yields-in-except-star-and-else", "yields-in-two-handlers", "yields-in-two-cases", "yield-then-yield", "wrapped-assignment-yield", "wrapped-annotated-assignment-yield", "wrapped-return-yield-from", "subscript-target-then-yield", "wrapped-expression-statement-yield",
          "yield-as-call-argument", "yield-in-with-item", "yield-in-if-condition", "yield-as-operand", "yield-in-returned-tuple", "yield-in-list-display", "yield-in-for-iterable", "yield-in-assert", "yield-in-while-condition", "yield-as-await-free-attribute-base", "yield-in-keyword-argument", "yield-in-dict-value", "yield-in-conditional-expression", "yield-in-augmented-assignment"]),
 ("ret", ["none", "int", "mod.T", "List[int]", "Generator[int, None, None]", "Iterator[int]", "int | None", '"Fwd"', "Dict[str, List[int]]", "Generator[Dict[str, int], None, None]",
         "tuple[int, ...]", 'Literal["a", 1, True]', "Callable[[int], str]", "Literal[-1]", "Annotated[int, 'meta']", "Generator[tuple[int, ...], None, None]", "Callable[..., int]", "mod.sub.T[int]", "int | str | None", "Iterator[Callable[[int], str]]", 'List["Fwd"]', 'Optional["mod.Fwd"]', "Literal['x', \"y\"]"]),
 ("doc", ["none", "one-line", "multi-indented", "blank-first-last", "raw", "triple-single", "not-first-statement", "non-ascii", "tab-indented", "whitespace-only-line-shorter-than-indent", "whitespace-only-line-longer-than-indent", "second-paragraph-deeper", "trailing-spaces-on-lines"]),
 ("style", ["decorator", "assignment"]),
 ("usage", ["test-fn", "test-method", "usefixtures-fn", "usefixtures-class", "mark-import", "pytestmark-call", "pytestmark-list", "pytestmark-tuple", "pytestmark-annotated", "indirect-true", "indirect-list", "parametrize-no-indirect", "helper-fn", "in-string-and-comment", "async-test", "kwonly-test",
            "indirect-list-name-after-comma-space", "indirect-true-trailing-comma", "indirect-true-argnames-tuple", "indirect-tuple-argnames-list", "indirect-true-argnames-keyword"]),
]

PARAMS = ["", "dep_a", "dep_a, dep_b, dep_c", "dep_a, /, dep_b", "dep_a, *, dep_b", "dep_a, dep_b=3", 'dep_a: int, dep_b: "T" = None', "dep_a, *args, **kwargs", "request, dep_a", "dep_a, *, dep_b=None, dep_c", "dep_a=1, dep_b=2", "dep_a, dep_b=2, /, dep_c=3"]
BODIES = [
 ["return 1"], ["yield 1"], ['with open("f") as fh:', "    yield fh"], ["async with ctx() as c:", "    yield c"],
 ["try:", "    yield 1", "finally:", "    pass"], ["try:", "    pass", "except Exception:", "    yield 1"],
 ["try:", "    pass", "except Exception:", "    pass", "else:", "    yield 1"], ["try:", "    pass", "finally:", "    yield 1"],
 ["for i in range(1):", "    yield i"], ["while True:", "    yield 1", "    break"], ["if True:", "    yield 1"],
 ["if False:", "    pass", "elif True:", "    yield 1"], ["x = yield 1"], ["yield from [1]"],
 ["def inner():", "    yield 1", "return inner"], ["f = lambda: (yield)", "return f"],
 # a yield-free compound statement BEFORE the statement that yields
 ["try:", "    v = 1", "except Exception:", "    v = 2", "yield v"], ["if SCOPE:", "    v = 1", "else:", "    v = 2", "yield v"],
 ["for i in range(1):", "    pass", "yield 1"], ["while False:", "    pass", "yield 1"], ['with open("f") as fh:', "    pass", "yield 1"],
 ["try:", "    v = 1", "finally:", "    pass", "if v:", "    yield v"],
 ["match SCOPE:", "    case 'x':", "        v = 1", "    case _:", "        v = 2", "yield v"], ["match SCOPE:", "    case 'x':", "        yield 1", "    case _:", "        yield 2"],
 ["try:", "    yield 1", "except* ValueError:", "    pass"], ["try:", "    pass", "except* ValueError:", "    yield 1"],
 # two yields in different blocks of one statement: the yield line is the first in SOURCE order
 ["try:", "    v = 1", "except Exception:", "    yield 1", "else:", "    yield 2"], ["try:", "    yield 1", "except Exception:", "    yield 2"],
 ["try:", "    v = 1", "except Exception:", "    v = 2", "else:", "    yield 1", "finally:", "    yield 2"], ["if SCOPE:", "    yield 1", "else:", "    yield 2"],
 ["for i in range(1):", "    yield 1", "else:", "    yield 2"], ["while False:", "    yield 1", "else:", "    yield 2"],
 ["try:", "    v = 1", "except* ValueError:", "    yield 1", "else:", "    yield 2"], ["try:", "    v = 1", "except ValueError:", "    yield 1", "except Exception:", "    yield 2"],
 ["match SCOPE:", "    case 'x':", "        yield 1", "    case _:", "        yield 2"], ["yield 1", "yield 2"],
 # the yield keyword sits on a later line than the start of its statement
 ["received = (", "    yield 1", ")"], ["received: int = (", "    yield 1", ")"], ["return (", "    yield from [1]", ")"],
 ["state = {}", "state[", "    'sent'", "] = yield 1"], ["(", "    yield 1", ")"],
 # the yield is a part of a larger expression
 ["print((yield 1))"], ['with open("x") as fh, (yield 3):', "    pass"], ["if (yield 1):", "    pass"], ["x = (yield 1) + 1"], ["return (yield 1), 2"], ["x = [(yield 1)]"],
 ["for i in (yield [1]):", "    pass"], ["assert (yield 1)"], ["while (yield 1):", "    break"], ["(yield 1).close()"], ["print(end=(yield 1))"], ["x = {'k': (yield 1)}"], ["x = (yield 1) if SCOPE else 2"], ["x = 0", "x += (yield 1)"],
]
RETS = [None, "int", "mod.T", "List[int]", "Generator[int, None, None]", "Iterator[int]", "int | None", '"Fwd"', "Dict[str, List[int]]", "Generator[Dict[str, int], None, None]",
        "tuple[int, ...]", 'Literal["a", 1, True]', "Callable[[int], str]", "Literal[-1]", "Annotated[int, 'meta']", "Generator[tuple[int, ...], None, None]", "Callable[..., int]", "mod.sub.T[int]", "int | str | None", "Iterator[Callable[[int], str]]", 'List["Fwd"]', 'Optional["mod.Fwd"]', "Literal['x', \"y\"]"]
DOCS = [None, ['"""One line."""'], ['"""Summary.', "", "    Indented body", "      more", '    """'], ['"""', "    Starts after blank.", "", '    """'],
        ['r"""Raw \\d doc."""'], ["'''Single quoted.'''"], ["x0 = 1", '"""not a docstring"""'], ['"""Résumé ✓ doc."""'], ['"""Tabbed.', "", "\tbody after tab", '\t"""'],
        ['"""Summary.', "  ", "    Body after a two-space line.", "    More.", '    """'], ['"""Summary.', "        ", "    Body after a long blank line.", '    """'],
        ['"""Summary.', "", "    First paragraph.", "", "        Deeper paragraph.", "    Back.", '    """'], ['"""Summary.   ', "", "    Body with trailing spaces.   ", '    """']]

def build(a):
    L = ["import pytest", "from pytest import fixture, mark", "import pytest_asyncio", "import types", "other = types.SimpleNamespace(fixture=lambda f: f)", "fixture_factory = lambda f: f", "other_deco = lambda f: f", "SCOPE = 'module'", ""]
    ind = ""
    pl = a["placement"]
    if pl == 1:
        L.append("class TestPlacement:"); ind = "    "
    elif pl == 2:
        L.append("class Plain:"); ind = "    "
    elif pl == 3:
        L.append("def outer():"); ind = "    "
    # decorator
    d = a["decorator"]
    args = []
    if a["name_kw"] == 1: args.append('name="renamed"')
    sc = a["scope"]
    if 1 <= sc <= 5: args.append('scope="%s"' % ["", "function", "class", "module", "package", "session"][sc])
    elif sc == 6: args.append('scope="bogus"')
    elif sc == 7: args.append("scope=SCOPE")
    if a["autouse"] == 1: args.append("autouse=True")
    elif a["autouse"] == 2: args.append("autouse=False")
    def spell(base, called):
        return "@" + base + ("(" + ", ".join(args) + ")" if (called or args) else "")
    params = PARAMS[a["params"]]
    if pl in (1, 2):
        params = "self" + (", " + params if params else "")
    body = list(BODIES[a["body"]])
    is_async = a["async"] == 1 or a["body"] == 3
    ret = RETS[a["ret"]]
    if a["style"] == 1:
        # assignment style: fx_name = pytest.fixture(...)(_impl)
        L.append(ind + "def _impl(%s):" % params)
        L.append(ind + "    return 1")
        L.append(ind + "fx_name = pytest.fixture(%s)(_impl)" % ", ".join(args))
    else:
        if d <= 5:
            base, called = DECOS[d]
            L.append(ind + spell(base, called))
        elif d == 6:
            L.append(ind + "@other_deco"); L.append(ind + spell("pytest.fixture", False))
        elif d == 7:
            L.append(ind + spell("pytest.fixture", False)); L.append(ind + "@other_deco")
        elif d == 8:
            L.append(ind + spell("other.fixture", False))
        elif d == 9:
            L.append(ind + spell("pytest.fixtures", False))
        else:
            L.append(ind + "@fixture_factory")
        L.append(ind + ("async def" if is_async else "def") + " fx_name(%s)%s:" % (params, (" -> " + ret) if ret else ""))
        doc = DOCS[a["doc"]]
        if doc:
            for x in doc:
                L.append((ind + "    " + x) if x else "")
        for x in body:
            L.append(ind + "    " + x)
    L.append("")
    u = a["usage"]
    if u == 0:
        L += ["def test_one(fx_name, other_fx):", "    pass"]
    elif u == 1:
        L += ["class TestU:", "    def test_m(self, fx_name):", "        pass", "    def helper_m(self, not_a_fixture):", "        pass"]
    elif u == 2:
        L += ['@pytest.mark.usefixtures("fx_name", "second_fx")', "def test_u():", "    pass"]
    elif u == 3:
        L += ['@pytest.mark.usefixtures("fx_name")', "class TestV:", "    def test_v(self):", "        pass"]
    elif u == 4:
        L += ['@mark.usefixtures("fx_name")', "def test_w():", "    pass"]
    elif u == 5:
        L += ['pytestmark = pytest.mark.usefixtures("fx_name", "second_fx")']
    elif u == 6:
        L += ['pytestmark = [pytest.mark.usefixtures("fx_name"), pytest.mark.skip]']
    elif u == 7:
        L += ['pytestmark = (pytest.mark.usefixtures("fx_name"), pytest.mark.usefixtures("second_fx"))']
    elif u == 8:
        L += ['pytestmark: list = [pytest.mark.usefixtures("fx_name")]']
    elif u == 9:
        L += ['@pytest.mark.parametrize("fx_name, second_fx", [(1, 2)], indirect=True)', "def test_p(fx_name, second_fx):", "    pass"]
    elif u == 10:
        L += ['@pytest.mark.parametrize("fx_name,second_fx", [(1, 2)], indirect=["fx_name"])', "def test_q(fx_name, second_fx):", "    pass"]
    elif u == 11:
        L += ['@pytest.mark.parametrize("val", [1, 2])', "def test_r(fx_name, val):", "    pass"]
    elif u == 16:
        L += ['@pytest.mark.parametrize("val, fx_name", [(1, 2)], indirect=["fx_name"])', "def test_s(val, fx_name):", "    pass"]
    elif u == 17:
        L += ['@pytest.mark.parametrize("fx_name,", [(1,)], indirect=True)', "def test_t(fx_name):", "    pass"]
    elif u == 18:
        L += ['@pytest.mark.parametrize(("fx_name", "second_fx"), [(1, 2)], indirect=True)', "def test_u(fx_name, second_fx):", "    pass"]
    elif u == 19:
        L += ['@pytest.mark.parametrize(["fx_name", "second_fx"], [(1, 2)], indirect=("fx_name",))', "def test_v(fx_name, second_fx):", "    pass"]
    elif u == 20:
        L += ['@pytest.mark.parametrize(argnames="fx_name", argvalues=[1], indirect=True)', "def test_w(fx_name):", "    pass"]
    elif u == 12:
        L += ["def helper(fx_name):", "    return fx_name", "", "class Plain2:", "    def method(self, fx_name):", "        pass"]
    elif u == 13:
        L += ["# fx_name is mentioned in a comment", 'S = "fx_name"', 'D = """fx_name"""']
    elif u == 14:
        L += ["async def test_async(fx_name):", "    pass"]
    else:
        L += ["def test_kw(*, fx_name, other_fx=None):", "    pass"]
    return "\n".join(L) + "\n"

if __name__ == "__main__":
    ap = argparse.ArgumentParser(); ap.add_argument("--k", type=int, default=2); ap.add_argument("--shard", default="0/1")
    o = ap.parse_args()
    si, sn = map(int, o.shard.split("/"))
    n = 0
    for i, a in enumerate(deviations(DIMS, o.k)):
        if i % sn != si:
            continue
        if a["style"] == 1 and (a["decorator"] or a["doc"] or a["body"] or a["ret"] or a["async"]):
            continue  # assignment style has no decorator spelling / body of its own
        src = build(a)
        dims = {nm: DIMS[j][1][a[nm]] for j, (nm, _) in enumerate(DIMS) if a[nm] != 0}
        try:
            exp = extract(src)
        except SyntaxError as e:
            emit({"id": i, "dims": dims, "source": src, "cpython_rejects": str(e)})
            continue
        emit({"id": i, "dims": dims, "source": src, "expected": exp})
