#!/usr/bin/env python3
"""C17 grammar: signature shapes x body forms x binding forms x flavour; expected undeclared
findings from CPython's ast under the statement's rules."""
import sys, json, argparse, ast
sys.path.insert(0, __file__.rsplit("/", 1)[0])
from common import deviations, emit
from extract import Extractor

SHAPES = ["no-params", "one-param", "two-params", "default", "annotation", "return-annotation", "multi-line", "multi-line-trailing-comma",
          "closing-paren-own-line", "method", "async", "decorated", "positional-only", "keyword-only", "comment-after-colon", "default-contains-paren-colon", "varargs",
          "keyword-only-parenthesised-default", "varargs-then-parenthesised-default", "annotated-parenthesised-default-and-return-annotation", "last-positional-parenthesised-default", "keyword-only-tuple-default",
          "default-then-kwargs", "only-kwargs", "only-varargs", "default-then-varargs", "keyword-only-then-kwargs", "two-defaults-then-kwargs"]
BODIES = ["call-target", "argument", "keyword-argument", "attribute-base", "binary-operand", "unary-operand", "compare-operand", "subscript-value", "subscript-index",
          "list-element", "tuple-element", "dict-value", "assert", "return", "await", "in-if", "in-for", "in-while", "in-with", "in-try", "in-except", "in-finally", "augmented-assign", "annotated-assign", "raise",
          "f-string(unjudged)", "lambda(unjudged)", "comprehension(unjudged)", "twice-on-one-line", "nested-call-argument",
          "in-else", "in-elif", "in-for-else", "in-while-else", "in-try-else", "in-async-with", "in-async-for", "in-match-case", "in-except-star", "in-nested-blocks",
          "if-condition", "while-condition", "for-iterable", "with-item", "match-subject", "conditional-expression", "boolean-operand", "starred-argument",
          "dict-key", "set-element", "slice-bound", "yield-value", "assert-message", "walrus-value(unjudged)", "return-tuple", "chained-attribute-call", "after-compound-statement", "after-attribute-store", "after-subscript-store", "after-augmented-attribute-store", "after-del-attribute"]
BINDINGS = ["visible-undeclared", "declared-parameter", "local-assigned-earlier", "local-assigned-later(unjudged)", "for-target-earlier", "with-target-earlier", "module-level-assignment", "module-level-import", "module-level-def", "only-in-sibling-conftest", "unknown-name",
            "assigned-in-except-earlier", "except-as-name-earlier", "assigned-in-for-else-earlier", "assigned-in-try-finally-earlier", "local-import-earlier", "local-from-import-earlier",
            "local-def-earlier", "local-class-earlier", "tuple-unpack-earlier", "starred-unpack-earlier", "walrus-earlier", "match-capture-earlier", "assigned-in-match-case-earlier",
            "assigned-in-while-body-earlier", "nested-with-as-tuple-earlier", "async-for-target-earlier", "assigned-in-except-star-earlier", "assigned-earlier-and-rebound-later", "augmented-earlier-and-rebound-later",
            "visible-undeclared-fixture-of-the-same-file-defined-above", "visible-undeclared-fixture-of-the-same-file-defined-below",
            "declared-as-varargs", "declared-as-kwargs", "visible-undeclared-fixture-the-conftest-star-imports",
            "module-level-import-inside-try", "module-level-assignment-inside-if"]
FLAVOURS = ["test", "fixture", "fixture-named-like-a-test"]
DIMS = [("shape", SHAPES), ("body", BODIES), ("binding", BINDINGS), ("flavour", FLAVOURS)]

def body_lines(form, N):
    f = BODIES[form]
    return {
     "call-target": ["%s()" % N], "argument": ["print(%s)" % N], "keyword-argument": ["print(end=%s)" % N], "attribute-base": ["%s.attr" % N],
     "binary-operand": ["y = 1 + %s" % N], "unary-operand": ["y = -%s" % N], "compare-operand": ["y = 1 < %s" % N], "subscript-value": ["%s[0]" % N],
     "subscript-index": ["y = [1][%s]" % N], "list-element": ["y = [1, %s]" % N], "tuple-element": ["y = (1, %s)" % N], "dict-value": ["y = {'k': %s}" % N],
     "assert": ["assert %s" % N], "return": ["return %s" % N], "await": ["await %s" % N], "in-if": ["if True:", "    %s.go()" % N], "in-for": ["for i in range(2):", "    %s.go()" % N],
     "in-while": ["while False:", "    %s.go()" % N], "in-with": ["with open('f'):", "    %s.go()" % N], "in-try": ["try:", "    %s.go()" % N, "finally:", "    pass"],
     "in-except": ["try:", "    pass", "except Exception:", "    %s.go()" % N], "in-finally": ["try:", "    pass", "finally:", "    %s.go()" % N],
     "augmented-assign": ["y = 0", "y += %s" % N], "annotated-assign": ["y: int = %s" % N], "raise": ["raise %s" % N],
     "f-string(unjudged)": ["y = f'{%s}'" % N], "lambda(unjudged)": ["y = lambda: %s" % N], "comprehension(unjudged)": ["y = [%s for _ in range(1)]" % N],
     "twice-on-one-line": ["assert %s.a == %s.b" % (N, N)], "nested-call-argument": ["print(len(str(%s)))" % N],
     "in-else": ["if False:", "    pass", "else:", "    %s.go()" % N], "in-elif": ["if False:", "    pass", "elif True:", "    %s.go()" % N],
     "in-for-else": ["for i in range(1):", "    pass", "else:", "    %s.go()" % N], "in-while-else": ["while False:", "    pass", "else:", "    %s.go()" % N],
     "in-try-else": ["try:", "    pass", "except Exception:", "    pass", "else:", "    %s.go()" % N],
     "in-async-with": ["async with ctx():", "    %s.go()" % N], "in-async-for": ["async for i in agen():", "    %s.go()" % N],
     "in-match-case": ["match 1:", "    case 1:", "        %s.go()" % N, "    case _:", "        pass"],
     "in-except-star": ["try:", "    pass", "except* ValueError:", "    %s.go()" % N],
     "in-nested-blocks": ["for i in range(1):", "    if i:", "        with open('f'):", "            %s.go()" % N],
     "if-condition": ["if %s.ok():" % N, "    pass"], "while-condition": ["while %s.more():" % N, "    break"], "for-iterable": ["for i in %s.items():" % N, "    pass"],
     "with-item": ["with %s.ctx():" % N, "    pass"], "match-subject": ["match %s.kind:" % N, "    case _:", "        pass"],
     "conditional-expression": ["y = %s.a if True else 0" % N], "boolean-operand": ["y = True and %s.a" % N], "starred-argument": ["print(*%s.items)" % N],
     "dict-key": ["y = {%s.k: 1}" % N], "set-element": ["y = {%s.a, 1}" % N], "slice-bound": ["y = [1, 2][%s.a:]" % N], "yield-value": ["yield %s.a" % N],
     "assert-message": ["assert True, %s.msg" % N], "walrus-value(unjudged)": ["if (y := %s.a):" % N, "    pass"], "return-tuple": ["return 1, %s.a" % N],
     "chained-attribute-call": ["%s.a.b.c()" % N], "after-compound-statement": ["try:", "    v = 1", "except Exception:", "    v = 2", "%s.go(v)" % N],
     "after-attribute-store": ["%s.attr = 1" % N, "%s.go()" % N], "after-subscript-store": ["%s['k'] = 1" % N, "%s.go()" % N],
     "after-augmented-attribute-store": ["%s.n += 1" % N, "%s.go()" % N], "after-del-attribute": ["del %s.attr" % N, "%s.go()" % N],
    }[f]

def build(a):
    shape, form, bind, flav = SHAPES[a["shape"]], a["body"], BINDINGS[a["binding"]], FLAVOURS[a["flavour"]]
    N = {"only-in-sibling-conftest": "sibfx", "unknown-name": "nofx", "visible-undeclared-fixture-of-the-same-file-defined-above": "localfx",
         "visible-undeclared-fixture-of-the-same-file-defined-below": "localfx", "visible-undeclared-fixture-the-conftest-star-imports": "impfx"}.get(bind, "fx")
    L = ["import pytest", ""]
    if bind == "visible-undeclared-fixture-of-the-same-file-defined-above": L += ["@pytest.fixture", "def localfx():", "    return 1", ""]
    if bind == "module-level-assignment": L += ["%s = 1" % N, ""]
    if bind == "module-level-import": L += ["from somewhere import %s" % N, ""]
    if bind == "module-level-import-inside-try": L += ["try:", "    from somewhere import %s" % N, "except ImportError:", "    %s = None" % N, ""]
    if bind == "module-level-assignment-inside-if": L += ["if True:", "    %s = 1" % N, ""]
    if bind == "module-level-def": L += ["def %s():" % N, "    return 1", ""]
    ind = ""
    if shape == "method":
        L.append("class TestHolder:"); ind = "    "
    name = {"test": "test_target", "fixture": "target_fx", "fixture-named-like-a-test": "test_target_fx"}[flav]
    if flav != "test": L.append(ind + "@pytest.fixture")
    if shape == "decorated": L.append(ind + "@pytest.mark.skip")
    p = "a"
    declared = [N] if bind == "declared-parameter" else ["*" + N] if bind == "declared-as-varargs" else ["**" + N] if bind == "declared-as-kwargs" else []
    kw = "async def" if (shape == "async" or BODIES[form] in ("await", "in-async-with", "in-async-for") or bind == "async-for-target-earlier") else "def"
    def sig(params, tail=":"):
        return ind + "%s %s(%s)%s" % (kw, name, ", ".join(params), tail)
    if shape == "no-params": L.append(sig(declared))
    elif shape == "one-param": L.append(sig([p] + declared))
    elif shape == "two-params": L.append(sig([p, "b"] + declared))
    elif shape == "default": L.append(sig([p] + declared + ["b=1"]))
    elif shape == "annotation": L.append(sig([p + ": int"] + declared))
    elif shape == "return-annotation": L.append(sig([p] + declared, " -> None:"))
    elif shape == "multi-line":
        L.append(ind + "%s %s(%s," % (kw, name, p)); L.append(ind + "        " + ", ".join(["b"] + declared) + "):")
    elif shape == "multi-line-trailing-comma":
        L.append(ind + "%s %s(" % (kw, name))
        for x in [p, "b"] + declared: L.append(ind + "    " + x + ",")
        L.append(ind + "):")
    elif shape == "closing-paren-own-line":
        L.append(ind + "%s %s(" % (kw, name)); L.append(ind + "    " + ", ".join([p] + declared)); L.append(ind + "):")
    elif shape == "method": L.append(sig(["self", p] + declared))
    elif shape == "async": L.append(sig([p] + declared))
    elif shape == "decorated": L.append(sig([p] + declared))
    elif shape == "positional-only": L.append(sig([p, "/"] + declared))
    elif shape == "keyword-only": L.append(sig(["*", p] + declared))
    elif shape == "comment-after-colon": L.append(sig([p] + declared, ":  # note (x):"))
    elif shape == "default-contains-paren-colon": L.append(sig([p] + declared + ['b="):"']))
    elif shape == "varargs": L.append(sig([p] + declared + ["*args", "**kwargs"]))
    elif shape == "keyword-only-parenthesised-default": L.append(sig(declared + ["*", "b=(1 + 2)"]))
    elif shape == "varargs-then-parenthesised-default": L.append(sig(declared + ["*args", "b=(3)"]))
    elif shape == "annotated-parenthesised-default-and-return-annotation": L.append(sig(declared + ["*", "b: int = (1)"], " -> None:"))
    elif shape == "last-positional-parenthesised-default": L.append(sig([p] + declared + ["b=(1)"]))
    elif shape == "keyword-only-tuple-default": L.append(sig(declared + ["*", "b=(1, 2)"]))
    elif shape == "default-then-kwargs": L.append(sig([p] + declared + ['b="bob"', "**extra"]))
    elif shape == "only-kwargs": L.append(sig(declared + ["**extra"]))
    elif shape == "only-varargs": L.append(sig(declared + ["*rest"]))
    elif shape == "default-then-varargs": L.append(sig([p] + declared + ["b=1", "*rest"]))
    elif shape == "keyword-only-then-kwargs": L.append(sig(declared + ["*", "b", "**extra"]))
    elif shape == "two-defaults-then-kwargs": L.append(sig(declared + ["b=1", "c=2", "**extra"]))
    bi = ind + "    "
    if bind == "local-assigned-earlier": L.append(bi + "%s = object()" % N)
    if bind == "for-target-earlier":
        L.append(bi + "for %s in [object()]:" % N); L.append(bi + "    pass")
    if bind == "with-target-earlier":
        L.append(bi + "with open('f') as %s:" % N); L.append(bi + "    pass")
    extra_bind = {
        "assigned-in-except-earlier": ["try:", "    pass", "except Exception:", "    %s = object()" % N],
        "except-as-name-earlier": ["try:", "    pass", "except Exception as %s:" % N, "    pass", "%s = object()" % N] if False else ["try:", "    pass", "except Exception as e0:", "    %s = e0" % N],
        "assigned-in-for-else-earlier": ["for i0 in range(1):", "    pass", "else:", "    %s = object()" % N],
        "assigned-in-try-finally-earlier": ["try:", "    pass", "finally:", "    %s = object()" % N],
        "local-import-earlier": ["import os as %s" % N], "local-from-import-earlier": ["from os import path as %s" % N],
        "local-def-earlier": ["def %s():" % N, "    return 1"], "local-class-earlier": ["class %s:" % N, "    pass"],
        "tuple-unpack-earlier": ["%s, other0 = object(), 2" % N], "starred-unpack-earlier": ["*%s, other0 = [1, 2]" % N],
        "walrus-earlier": ["if (%s := object()):" % N, "    pass"],
        "match-capture-earlier": ["match object():", "    case %s:" % N, "        pass"],
        "assigned-in-match-case-earlier": ["match 1:", "    case _:", "        %s = object()" % N],
        "assigned-in-while-body-earlier": ["while True:", "    %s = object()" % N, "    break"],
        "nested-with-as-tuple-earlier": ["with open('f') as (%s, other0):" % N, "    pass"],
        "async-for-target-earlier": ["async for %s in agen():" % N, "    pass"],
        "assigned-in-except-star-earlier": ["try:", "    pass", "except* ValueError:", "    %s = object()" % N],
        "assigned-earlier-and-rebound-later": ["%s = object()" % N],
        "augmented-earlier-and-rebound-later": ["%s = 0" % N, "%s += 1" % N],
    }
    if bind in extra_bind:
        for x in extra_bind[bind]: L.append(bi + x)
    use_first = len(L) + 1
    for x in body_lines(form, N): L.append(bi + x)
    if bind == "local-assigned-later(unjudged)": L.append(bi + "%s = object()" % N)
    if bind in ("assigned-earlier-and-rebound-later", "augmented-earlier-and-rebound-later"): L.append(bi + "%s = None" % N)
    L.append("")
    # bystander functions (must never be touched by a quick fix)
    L += [ind + "def test_bystander(x1):", ind + "    pass", "", "def test_module_bystander(x2):", "    return x2", ""]
    if bind == "visible-undeclared-fixture-of-the-same-file-defined-below": L += ["@pytest.fixture", "def localfx():", "    return 1", ""]
    return "\n".join(L) + "\n", name, N, use_first

def expected(src, fname, N, bind, form):
    ex = Extractor(src)
    sites = []
    for n in ast.walk(ex.tree):
        if isinstance(n, (ast.FunctionDef, ast.AsyncFunctionDef)) and n.name == fname:
            for m in ast.walk(n):
                if isinstance(m, ast.Name) and m.id == N and isinstance(m.ctx, ast.Load):
                    s16, _ = ex.ast_pos(m.lineno, m.col_offset); e16, _ = ex.ast_pos(m.end_lineno, m.end_col_offset)
                    sites.append([m.lineno, s16, e16])
    sites.sort()
    judged = "(unjudged)" not in BODIES[form] and "(unjudged)" not in bind
    if bind.startswith("visible-undeclared"):
        return judged, sites
    return judged, []

if __name__ == "__main__":
    ap = argparse.ArgumentParser(); ap.add_argument("--k", type=int, default=2); ap.add_argument("--shard", default="0/1")
    o = ap.parse_args()
    si, sn = map(int, o.shard.split("/"))
    for i, a in enumerate(deviations(DIMS, o.k)):
        if i % sn != si: continue
        src, fname, N, use_first = build(a)
        dims = {nm: DIMS[j][1][a[nm]] for j, (nm, _) in enumerate(DIMS) if a[nm] != 0}
        try:
            judged, sites = expected(src, fname, N, BINDINGS[a["binding"]], a["body"])
            funcs = {}
        except SyntaxError as e:
            emit({"id": i, "dims": dims, "source": src, "cpython_rejects": str(e)}); continue
        emit({"id": i, "dims": dims, "source": src, "expected": {"function": fname, "name": N, "judged": judged, "findings": sites, "use_line": use_first}})
