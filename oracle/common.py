"""Deviation-bounded enumeration: every assignment with at most k dimensions off their default."""
import itertools, json, sys

def deviations(dims, k):
    """dims: list of (name, [values]); value index 0 is the default.
    Yields dicts name->value-index for all assignments with <= k non-default dimensions,
    in order of increasing number of deviations."""
    names = [d[0] for d in dims]
    for n in range(0, k + 1):
        for combo in itertools.combinations(range(len(dims)), n):
            ranges = [range(1, len(dims[i][1])) for i in combo]
            for vals in itertools.product(*ranges):
                a = {nm: 0 for nm in names}
                for i, v in zip(combo, vals):
                    a[names[i]] = v
                yield a

def emit(rec):
    sys.stdout.write(json.dumps(rec, ensure_ascii=False) + "\n")
