#!/usr/bin/env python3
"""C18 grammar: documents whose every line has a known completion class; the generator is the
ground truth (it knows what it wrote), CPython only confirms which documents are valid."""
import sys, json, argparse, ast
sys.path.insert(0, __file__.rsplit("/", 1)[0])
from common import deviations, emit

SCOPES = ["function", "class", "module", "package", "session"]
DIMS = [
 ("fx_scope", SCOPES),
 ("sig", ["one-line", "multi-line", "closing-paren-own-line"]),
 ("declared", ["none", "one-visible-fixture", "two", "defaulted-parameter-named-like-a-fixture", "keyword-only-defaulted-parameter-named-like-a-fixture"]),
 ("nest", ["module", "class", "class-in-class"]),
 ("async", ["def", "async def"]),
 ("decos", ["none", "extra-decorator", "multi-line-fixture-decorator", "multi-line-mark-on-the-test"]),
 ("body", ["one-line", "multi-line-with-blank", "nested-def-inside", "docstring-first"]),
 ("usefixtures", ["none", "single-line", "multi-line", "on-class", "pytestmark"]),
 ("parametrize", ["none", "indirect", "without-indirect", "indirect=False", "indirect-list", "indirect-multi-line"]),
 ("tail", ["none", "def test_x(", "def test_x(a,", "def test_x(a, <newline>", "def test_x():", "def test_x()", "fixture def fix(", "session fixture def fix(a, ",
           "async def test_x(", "usefixtures( unclosed", 'usefixtures("a", ', "pytestmark = [usefixtures(", "def helper(", "def test_x (unjudged)",
           "pytest_asyncio fixture async def fix(", "multi-line session fixture decorator, def fix(", "scope = \"session\" with spaces, def fix("]),
 ("location", ["root", "subdirectory"]),
 ("edited_name_collides", ["no", "edited fixture has the name of a conftest fixture", "edited fixture is named like a test (test_edited)"]),
 ("alias", ["no", 'edited fixture declared with name= on a function of another name']),
 ("trailer", ["none", "multi-line module-level call after the test", "multi-line module-level list after the test", "multi-line call between the functions"]),
]

class Doc:
    def __init__(self):
        self.lines = []; self.exp = []
    def add(self, text, cls="none", col=None, **kw):
        """cls: none | signature | body | usefixtures | parametrize | unjudged"""
        self.lines.append(text)
        if col is None:
            col = 0 if cls == "none" else len(text)
        self.exp.append(dict(line=len(self.lines) - 1, col=col, cls=cls, **kw))

def build(a):
    d = Doc()
    unit = "    "
    d.add("import pytest"); d.add("")
    d.add("@pytest.fixture"); ctx_l = dict(func="l_one", is_fixture=True, scope="function", declared=[])
    d.add("def l_one():", "signature", col=len("def l_one("), **ctx_l)
    d.add("    return 1", "body", **ctx_l)
    d.add("", "unjudged"); d.add("@pytest.fixture"); 
    ctx_s = dict(func="shadow", is_fixture=True, scope="function", declared=[])
    d.add("def shadow():", "signature", col=len("def shadow("), **ctx_s); d.add("    return 2", "body", **ctx_s); d.add("", "unjudged")
    depth = a["nest"]
    I = unit * depth
    if depth >= 1: d.add("class TestHolder:")
    if depth == 2: d.add(unit + "class TestInner:")
    self_ = ["self"] if depth else []
    kw = "async def" if a["async"] else "def"
    # ---- the fixture being edited
    scope = SCOPES[a["fx_scope"]]
    fname = ["edited_fx", "c_module", "test_edited"][a["edited_name_collides"]]
    declared = {0: [], 1: ["c_function"], 2: ["c_session", "l_one"], 3: ["c_session=None"], 4: ["*", "c_session=None"]}[a["declared"]]
    # names taken in the signature (what completion must not offer again)
    taken = [p.split("=")[0] for p in declared if p != "*"]
    # a fixture may only declare fixtures of equal or broader scope; keep the document sensible
    params = self_ + declared
    ctx_f = dict(func=fname, is_fixture=True, scope=scope, declared=self_ + taken)
    if a["decos"] == 1: d.add(I + "@other_deco")
    alias = a["alias"] == 1
    def_name = fname + "_impl" if alias else fname
    if a["decos"] == 2:
        # continuation lines of a decorator call are no place to request a fixture
        d.add(I + "@pytest.fixture("); d.add(I + unit + 'scope="%s",' % scope, "none", col=len(I + unit))
        if alias: d.add(I + unit + 'name="%s",' % fname, "none", col=len(I + unit))
        d.add(I + ")", "none", col=len(I))
    else:
        args = (['scope="%s"' % scope] if scope != "function" else []) + (['name="%s"' % fname] if alias else [])
        d.add(I + ("@pytest.fixture(%s)" % ", ".join(args) if args else "@pytest.fixture"))
    def signature(name, params, ctx):
        if a["sig"] == 0 or not params:
            d.add(I + "%s %s(%s):" % (kw, name, ", ".join(params)), "signature", col=len(I + "%s %s(" % (kw, name)), **ctx)
        elif a["sig"] == 1:
            d.add(I + "%s %s(%s," % (kw, name, params[0]), "signature", col=len(I + "%s %s(" % (kw, name)), **ctx)
            for p in params[1:-1]: d.add(I + unit * 2 + p + ",", "signature", col=len(I + unit * 2), **ctx)
            d.add(I + unit * 2 + (params[-1] if len(params) > 1 else "") + "):", "signature", col=len(I + unit * 2), **ctx)
        else:
            d.add(I + "%s %s(" % (kw, name), "signature", **ctx)
            for p in params: d.add(I + unit + p + ",", "signature", col=len(I + unit), **ctx)
            d.add(I + "):", "signature", col=len(I), **ctx)
    def body(ctx):
        B = I + unit
        if a["body"] == 3: d.add(B + '"""Docstring."""', "body", **ctx)
        d.add(B + "x = 1", "body", **ctx)
        if a["body"] == 1:
            d.add("", "body", col=0, **ctx); d.add(B + "y = 2", "body", **ctx)
        if a["body"] == 2:
            d.add(B + "def inner(q):", "unjudged"); d.add(B + unit + "return q", "unjudged"); d.add(B + "z = inner(1)", "body", **ctx)
        d.add(B + "return x", "body", **ctx)
    signature(def_name, params, ctx_f); body(ctx_f); d.add("", "unjudged")
    if a["trailer"] == 3:
        d.add("BETWEEN = dict("); d.add("    key=1,", "none", col=4); d.add(")", "none", col=0); d.add("", "unjudged")
    # ---- a test with marks
    tparams = self_ + declared
    ctx_t = dict(func="test_it", is_fixture=False, scope=None, declared=self_ + taken)
    if a["decos"] == 3:
        d.add(I + "@pytest.mark.skipif("); d.add(I + unit + "True,", "none", col=len(I + unit)); d.add(I + unit + 'reason="x",', "none", col=len(I + unit)); d.add(I + ")", "none", col=len(I))
    uf = a["usefixtures"]
    if uf == 1: d.add(I + '@pytest.mark.usefixtures("l_one")', "usefixtures", col=len(I + "@pytest.mark.usefixtures("))
    if uf == 2:
        d.add(I + "@pytest.mark.usefixtures(", "usefixtures"); d.add(I + unit + '"l_one",', "usefixtures", col=len(I + unit)); d.add(I + ")", "usefixtures", col=len(I))
    if a["parametrize"] == 1: d.add(I + '@pytest.mark.parametrize("c_function", [1], indirect=True)', "parametrize", col=len(I + "@pytest.mark.parametrize("))
    if a["parametrize"] == 2: d.add(I + '@pytest.mark.parametrize("val", [1])', "none", col=len(I + "@pytest.mark.parametrize("))
    if a["parametrize"] == 3: d.add(I + '@pytest.mark.parametrize("val", [1], indirect=False)', "none", col=len(I + "@pytest.mark.parametrize("))
    if a["parametrize"] == 4: d.add(I + '@pytest.mark.parametrize("c_function", [1], indirect=["c_function"])', "parametrize", col=len(I + "@pytest.mark.parametrize("))
    if a["parametrize"] == 5:
        d.add(I + "@pytest.mark.parametrize(", "parametrize"); d.add(I + unit + '"c_function",', "parametrize", col=len(I + unit)); d.add(I + unit + "[1],", "parametrize", col=len(I + unit))
        d.add(I + unit + "indirect=True,", "parametrize", col=len(I + unit)); d.add(I + ")", "parametrize", col=len(I))
    tp = tparams + (["c_function"] if a["parametrize"] in (1, 4, 5) and "c_function" not in tparams else []) + (["val"] if a["parametrize"] in (2, 3) else [])
    ctx_t["declared"] = [p.split("=")[0] for p in tp if p != "*"]
    signature("test_it", tp, ctx_t); body(ctx_t); d.add("", "unjudged")
    if a["trailer"] == 1:
        d.add("CONFIG = dict("); d.add("    key=1,", "none", col=4); d.add("    other=2,", "none", col=4); d.add(")", "none", col=0); d.add("", "unjudged")
    if a["trailer"] == 2:
        d.add("ITEMS = ["); d.add("    1,", "none", col=4); d.add("]", "none", col=0); d.add("", "unjudged")
    if uf == 3:
        d.add('@pytest.mark.usefixtures("l_one")', "usefixtures", col=len("@pytest.mark.usefixtures("))
        d.add("class TestMarked:")
        cm = dict(func="test_m", is_fixture=False, scope=None, declared=["self"])
        d.add("    def test_m(self):", "signature", col=len("    def test_m("), **cm); d.add("        pass", "body", **cm); d.add("", "unjudged")
    if uf == 4:
        d.add('pytestmark = pytest.mark.usefixtures("l_one")', "usefixtures", col=len("pytestmark = pytest.mark.usefixtures("))
    # ---- non-test helper: never a completion context
    d.add("def helper(arg):", "none", col=len("def helper(")); d.add("    return arg", "none", col=len("    return arg")); d.add("", "unjudged")
    d.add("VALUE = 3")
    # ---- incomplete tail (makes the document unparsable: text fallback)
    t = a["tail"]
    sig = lambda name, declared, fixture=False, scope=None: dict(func=name, is_fixture=fixture, scope=scope, declared=declared)
    if t == 1: d.add("def test_x(", "signature", **sig("test_x", []))
    elif t == 2: d.add("def test_x(a,", "signature", **sig("test_x", ["a"]))
    elif t == 3: d.add("def test_x(a, ", "signature", **sig("test_x", ["a"])); d.add("    ", "signature", **sig("test_x", ["a"]))
    elif t == 4: d.add("def test_x():", "signature", col=len("def test_x("), **sig("test_x", []))
    elif t == 5: d.add("def test_x()", "signature", col=len("def test_x("), **sig("test_x", []))
    elif t == 6: d.add("@pytest.fixture"); d.add("def fix(", "signature", **sig("fix", [], True, "function"))
    elif t == 7: d.add('@pytest.fixture(scope="session")'); d.add("def fix(a, ", "signature", **sig("fix", ["a"], True, "session"))
    elif t == 8: d.add("async def test_x(", "signature", **sig("test_x", []))
    elif t == 9: d.add("@pytest.mark.usefixtures(", "usefixtures")
    elif t == 10: d.add('@pytest.mark.usefixtures("a", ', "usefixtures")
    elif t == 11: d.add("pytestmark = [pytest.mark.usefixtures(", "usefixtures")
    elif t == 12: d.add("def helper2(", "none", col=len("def helper2("))
    elif t == 13: d.add("def test_x", "unjudged")
    elif t == 14: d.add("@pytest_asyncio.fixture"); d.add("async def fix(", "signature", **sig("fix", [], True, "function"))
    elif t == 15:
        d.add("@pytest.fixture("); d.add('    scope="session",', "none", col=4); d.add(")", "none", col=0); d.add("def fix(", "signature", **sig("fix", [], True, "session"))
    elif t == 16: d.add('@pytest.fixture(scope = "session")'); d.add("def fix(", "signature", **sig("fix", [], True, "session"))
    if t and t not in (3,):
        pass
    return d

if __name__ == "__main__":
    ap = argparse.ArgumentParser(); ap.add_argument("--k", type=int, default=2); ap.add_argument("--shard", default="0/1")
    o = ap.parse_args()
    si, sn = map(int, o.shard.split("/"))
    for i, a in enumerate(deviations(DIMS, o.k)):
        if i % sn != si: continue
        d = build(a)
        src = "\n".join(d.lines) + ("\n" if a["tail"] == 0 else "")
        dims = {nm: DIMS[j][1][a[nm]] for j, (nm, _) in enumerate(DIMS) if a[nm] != 0}
        valid = True
        try:
            ast.parse(src)
        except SyntaxError:
            valid = False
        if valid != (a["tail"] == 0):
            # a tail that CPython accepts (or a body CPython rejects): the per-line truth would differ
            emit({"id": i, "dims": dims, "source": src, "cpython_rejects": "validity differs from the recipe"}); continue
        # when the document is unparsable every earlier line is judged by the text fallback too:
        # keep only the tail lines and module-level 'none' lines judged
        exp = d.exp
        if a["tail"]:
            ntail = {1:1,2:1,3:2,4:1,5:1,6:2,7:2,8:1,9:1,10:1,11:1,12:1,13:1,14:2,15:4,16:2}[a["tail"]]
            for e in exp[:-ntail]:
                if e["cls"] != "none": e["cls"] = "unjudged"
        emit({"id": i, "dims": dims, "source": src, "expected": {"valid": valid, "location": a["location"], "lines": exp,
              "local_fixtures": [["l_one", "function"], ["shadow", "function"], [["edited_fx", "c_module", "test_edited"][a["edited_name_collides"]], SCOPES[a["fx_scope"]]]]}})
