#!/usr/bin/env python3
"""C15 program grammar (layout features) with token positions from CPython ast/tokenize."""
import sys, json, argparse, ast
sys.path.insert(0, __file__.rsplit("/", 1)[0])
from common import deviations, emit
from extract import Extractor

DIMS = [
 ("nest", ["module", "class", "class-in-class"]),
 ("decos", ["plain", "extra-decorator-above", "multi-line-decorator-call"]),
 ("async", ["def", "async def"]),
 ("sig", ["one-line", "one-param-per-line", "closing-paren-own-line", "trailing-comma", "parameters-at-column-0-of-continuation-lines"]),
 ("annot", ["none", "annotations-and-defaults"]),
 ("markers", ["none", "positional-only", "keyword-only"]),
 ("strform", ['"x"', "'x'", '"""x"""', 'r"x"', "implicit-concatenation", "parenthesised", 'r"""x"""', "R\'\'\'x\'\'\'", "u'x'", 'U"""x"""']),
 ("ws", ["spaces", "tabs"]),
 ("eol", ["LF", "CRLF"]),
 ("nonascii", ["none", "default-value-é-before-token", "default-value-emoji-before-token", "non-ascii-parameter-before-token", "non-ascii-class-name", "non-ascii-in-usefixtures-before"]),
 ("collide", ["none", "test-name-contains-fixture-name", "dependent-fixture-name-contains-fixture-name"]),
 ("body", ["return", "yield", "yield-keyword-on-a-later-line-than-its-statement", "whole-function-on-one-line"]),
 ("indirect", ["none", "indirect=True, second of two names in one string", "indirect list, names in one string with spaces", "indirect=True, names as a tuple"]),
 ("col0", ["none", "usefixtures string at column 0 of a continuation line", "body use at column 0 inside parentheses"]),
 ("depsig", ["one-line", "one-param-per-line", "closing-paren-own-line", "first-param-on-def-line"]),
]

def build(a):
    unit = "\t" if a["ws"] == 1 else "    "
    L = ["import pytest", "other_deco = lambda f: f", ""]
    depth = a["nest"]
    cls = "TestÑ" if a["nonascii"] == 4 else "TestN"
    if depth >= 1:
        L.append("class %s:" % cls)
    if depth == 2:
        L.append(unit + "class TestInner:")
    I = unit * depth
    self_ = "self" if depth else ""
    def params(*ps):
        ps = [p for p in ps if p]
        return ", ".join(ps)
    # fixture under test
    if a["decos"] == 1:
        L.append(I + "@other_deco")
        L.append(I + "@pytest.fixture")
    elif a["decos"] == 2:
        L.append(I + "@pytest.fixture(")
        L.append(I + unit + 'scope="module",')
        L.append(I + ")")
    else:
        L.append(I + "@pytest.fixture")
    kw = "async def" if a["async"] == 1 else "def"
    if a["body"] == 3:
        L.append(I + "%s fx_name(%s) -> int: return 1" % (kw, self_))
    else:
        L.append(I + "%s fx_name(%s) -> int:" % (kw, self_))
    if a["body"] == 3:
        pass
    elif a["body"] == 2:
        L.append(I + unit + "received = ("); L.append(I + unit * 2 + "yield 1"); L.append(I + unit + ")")
    else:
        L.append(I + unit + ("yield 1" if a["body"] == 1 else "return 1"))
    L.append("")
    # dependent fixture
    dep = "fx_name_user" if a["collide"] == 2 else "dep_user"
    L.append(I + "@pytest.fixture")
    ds = a["depsig"]
    if ds == 0:
        L.append(I + "def %s(%s):" % (dep, params(self_, "fx_name")))
    elif ds == 1:
        L.append(I + "def %s(" % dep)
        for q in [x for x in (self_, "request") if x]:
            L.append(I + unit * 2 + q + ",")
        L.append(I + unit * 2 + "fx_name):")
    elif ds == 2:
        L.append(I + "def %s(" % dep)
        for q in [x for x in (self_, "request", "fx_name") if x]:
            L.append(I + unit + q + ",")
        L.append(I + "):")
    else:
        L.append(I + "def %s(%s," % (dep, self_ or "request"))
        L.append(I + unit * 2 + "fx_name,")
        L.append(I + "):")
    L.append(I + unit + "return fx_name")
    L.append("")
    # test with the signature layout
    sf = a["strform"]
    lit = ['"fx_name"', "'fx_name'", '"""fx_name"""', 'r"fx_name"', '"fx_" "name"', '("fx_name")', 'r"""fx_name"""', "R'''fx_name'''", "u'fx_name'", 'U"""fx_name"""'][sf]
    pre = '"é_other", ' if a["nonascii"] == 5 else ""
    if a["indirect"] == 1:
        L.append(I + '@pytest.mark.parametrize("extra, fx_name", [("x", 2)], indirect=True)')
    elif a["indirect"] == 2:
        L.append(I + '@pytest.mark.parametrize("extra , fx_name", [("x", 2)], indirect=["fx_name"])')
    elif a["indirect"] == 3:
        L.append(I + '@pytest.mark.parametrize(("extra", "fx_name"), [("x", 2)], indirect=True)')
    if a["col0"] == 1:
        L.append(I + "@pytest.mark.usefixtures(%s" % pre); L.append(lit); L.append(I + ")")
    else:
        L.append(I + "@pytest.mark.usefixtures(%s%s)" % (pre, lit))
    tname = "test_fx_name_user" if a["collide"] == 1 else "test_one"
    before = {0: None, 1: 'other="é"', 2: 'other="🙂"', 3: "ñame", 4: None, 5: None}[a["nonascii"]]
    main = "fx_name: int" if a["annot"] == 1 else "fx_name"
    extra = 'extra: str = "x"' if a["annot"] == 1 else "extra"
    if a["markers"] == 1:
        plist = [self_, before, main, "/", extra] if before and "=" not in before else [self_, main, "/", before, extra]
    elif a["markers"] == 2:
        plist = [self_, before, "*", main, extra] if not before or "=" not in before else [self_, "*", before, main, extra]
    else:
        # a defaulted parameter may not precede a non-default one — unless they are keyword-only; the
        # token must stay a fixture REQUEST (a parameter with a default value requests nothing)
        if before and "=" in before:
            plist = [self_, "*", before, main, extra]
        else:
            plist = [self_, before, main, extra]
    plist = [p for p in plist if p]
    s = a["sig"]
    if s == 0:
        L.append(I + "def %s(%s):" % (tname, ", ".join(plist)))
    elif s == 1:
        L.append(I + "def %s(%s," % (tname, plist[0]))
        for p in plist[1:-1]:
            L.append(I + unit * 2 + p + ",")
        L.append(I + unit * 2 + plist[-1] + "):")
    elif s == 2:
        L.append(I + "def %s(" % tname)
        for p in plist[:-1]:
            L.append(I + unit + p + ",")
        L.append(I + unit + plist[-1])
        L.append(I + "):")
    elif s == 3:
        L.append(I + "def %s(" % tname)
        for p in plist:
            L.append(I + unit + p + ",")
        L.append(I + "):")
    else:
        L.append(I + "def %s(" % tname)
        for p in plist:
            L.append(p + ",")
        L.append(I + "):")
    L.append(I + unit + "pass")
    L.append("")
    L.append(I + "def test_body(%s):" % self_)
    if a["col0"] == 2:
        L.append(I + unit + "print("); L.append("fx_name.attr"); L.append(I + unit + ")")
    else:
        L.append(I + unit + 'label = "é"; fx_name.attr' if a["nonascii"] in (1, 2) else I + unit + "fx_name.attr")
    L.append("")
    eol = "\r\n" if a["eol"] == 1 else "\n"
    return eol.join(L) + eol

def undeclared_sites(ex):
    out = []
    for n in ast.walk(ex.tree):
        if isinstance(n, (ast.FunctionDef, ast.AsyncFunctionDef)) and n.name == "test_body":
            for m in ast.walk(n):
                if isinstance(m, ast.Name) and m.id == "fx_name":
                    s16, sb = ex.ast_pos(m.lineno, m.col_offset)
                    e16, eb = ex.ast_pos(m.end_lineno, m.end_col_offset)
                    out.append(dict(line=m.lineno, start=s16, end=e16, start_b=sb, end_b=eb))
    return out

if __name__ == "__main__":
    ap = argparse.ArgumentParser(); ap.add_argument("--k", type=int, default=2); ap.add_argument("--shard", default="0/1")
    o = ap.parse_args()
    si, sn = map(int, o.shard.split("/"))
    for i, a in enumerate(deviations(DIMS, o.k)):
        if i % sn != si:
            continue
        if a["nonascii"] == 4 and a["nest"] == 0:
            continue
        src = build(a)
        dims = {nm: DIMS[j][1][a[nm]] for j, (nm, _) in enumerate(DIMS) if a[nm] != 0}
        try:
            ex = Extractor(src)
            exp = ex.run()
            exp["undeclared"] = undeclared_sites(ex)
            exp["line_count"] = len(src.split("\n"))
            exp["line_lengths_utf16"] = [len(ex.line_text(i + 1).encode("utf-16-le")) // 2 for i in range(len(ex.lines))]
        except SyntaxError as e:
            emit({"id": i, "dims": dims, "source": src, "cpython_rejects": str(e)})
            continue
        emit({"id": i, "dims": dims, "source": src, "expected": exp})
