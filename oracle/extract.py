#!/usr/bin/env python3
"""Independent extraction of pytest fixtures and fixture usages from Python source with CPython's
own parser (ast + tokenize), under the rules the project documents.  Shares no code with the
repository.  Positions: 1-based lines; columns are UTF-16 code units (the LSP unit) AND byte
offsets are provided separately where a check needs to classify the disagreement."""
import ast, inspect, io, tokenize, sys, json

FIXTURE_MODULES = ("pytest", "pytest_asyncio")
SCOPES = ("function", "class", "module", "package", "session")


def is_fixture_decorator(d):
    if isinstance(d, ast.Call):
        return is_fixture_decorator(d.func)
    if isinstance(d, ast.Name):
        return d.id == "fixture"
    if isinstance(d, ast.Attribute):
        return isinstance(d.value, ast.Name) and d.value.id in FIXTURE_MODULES and d.attr == "fixture"
    return False


def is_mark(d, marker):
    """pytest.mark.<marker> or mark.<marker>, bare or called"""
    if isinstance(d, ast.Call):
        return is_mark(d.func, marker)
    if isinstance(d, ast.Attribute) and d.attr == marker:
        v = d.value
        if isinstance(v, ast.Attribute) and v.attr == "mark" and isinstance(v.value, ast.Name) and v.value.id == "pytest":
            return True
        if isinstance(v, ast.Name) and v.id == "mark":
            return True
    return False


def kw(call, name):
    if not isinstance(call, ast.Call):
        return None
    for k in call.keywords:
        if k.arg == name:
            return k.value
    return None


def utf16_col(line_text, byte_col):
    """byte offset within the line -> UTF-16 code unit offset"""
    prefix = line_text.encode("utf-8")[:byte_col].decode("utf-8", errors="ignore")
    return len(prefix.encode("utf-16-le")) // 2


class Extractor:
    def __init__(self, source):
        self.source = source
        self.lines = source.split("\n")
        # strip a trailing \r for column computations on CRLF files
        self.tree = ast.parse(source)
        self.fixtures = []
        self.usages = []
        self.tokens = None

    # ---- token helpers -------------------------------------------------------------------
    def _tokens(self):
        if self.tokens is None:
            self.tokens = list(tokenize.generate_tokens(io.StringIO(self.source).readline))
        return self.tokens

    def line_text(self, lineno):
        t = self.lines[lineno - 1]
        return t[:-1] if t.endswith("\r") else t

    def pos(self, lineno, char_col):
        """CPython token columns are *character* offsets for tokenize and *byte* offsets for ast;
        this takes a character offset and returns (utf16 col, byte col)."""
        text = self.line_text(lineno)
        pre = text[:char_col]
        return (len(pre.encode("utf-16-le")) // 2, len(pre.encode("utf-8")))

    def ast_pos(self, lineno, byte_col):
        text = self.line_text(lineno)
        pre = text.encode("utf-8")[:byte_col].decode("utf-8", errors="ignore")
        return (len(pre.encode("utf-16-le")) // 2, byte_col)

    def def_name_token(self, node):
        """position of the function name token of a (Async)FunctionDef"""
        toks = self._tokens()
        # first NAME token equal to node.name after a 'def' keyword starting at/after node's def line
        for i, t in enumerate(toks):
            if t.type == tokenize.NAME and t.string == "def" and t.start[0] >= node.lineno and (t.start[0], t.start[1]) >= (node.lineno, 0):
                if t.start[0] == node.lineno or True:
                    nt = toks[i + 1]
                    if nt.string == node.name and nt.start[0] >= node.lineno:
                        return nt
        return None

    def string_content_span(self, const_node):
        """(lineno, utf16 start, utf16 end, byte start, byte end) of the *content* of a plain
        single-token string literal; None for concatenations / multi-line strings"""
        if const_node.lineno != const_node.end_lineno:
            return None
        text = self.line_text(const_node.lineno)
        b = text.encode("utf-8")
        seg = b[const_node.col_offset:const_node.end_col_offset].decode("utf-8")
        # prefix letters and quotes
        i = 0
        while i < len(seg) and seg[i] in "rRbBuUfF":
            i += 1
        q = seg[i:i + 3] if seg[i:i + 3] in ('"""', "'''") else seg[i:i + 1]
        if not q or not seg.endswith(q) or len(seg) < i + 2 * len(q):
            return None
        inner = seg[i + len(q):len(seg) - len(q)]
        # a single token? (implicit concatenation would contain quotes in between)
        if q[0] in inner and len(q) == 1:
            return None
        start_b = const_node.col_offset + len(seg[:i + len(q)].encode("utf-8"))
        end_b = const_node.end_col_offset - len(q.encode("utf-8"))
        s16, _ = self.ast_pos(const_node.lineno, start_b)
        e16, _ = self.ast_pos(const_node.lineno, end_b)
        return (const_node.lineno, s16, e16, start_b, end_b)

    # ---- fixtures ------------------------------------------------------------------------
    def params(self, fn):
        """the parameters that request a fixture: pytest ignores parameters that have a default value"""
        a = fn.args
        pos = list(a.posonlyargs) + list(a.args)
        nd = len(pos) - len(a.defaults)
        out = [p for i, p in enumerate(pos) if i < nd]
        out += [p for p, d in zip(a.kwonlyargs, a.kw_defaults) if d is None]
        return sorted(out, key=lambda p: (p.lineno, p.col_offset))

    def first_yield(self, fn):
        """first yield / yield from in source order inside fn's own scope"""
        best = None

        def visit(n):
            nonlocal best
            for c in ast.iter_child_nodes(n):
                if isinstance(c, (ast.FunctionDef, ast.AsyncFunctionDef, ast.Lambda, ast.ClassDef)):
                    continue
                if isinstance(c, (ast.Yield, ast.YieldFrom)):
                    p = (c.lineno, c.col_offset)
                    if best is None or p < best:
                        best = p
                visit(c)

        for st in fn.body:
            if isinstance(st, (ast.FunctionDef, ast.AsyncFunctionDef, ast.ClassDef)):
                continue
            if isinstance(st, ast.Expr) and isinstance(st.value, (ast.Yield, ast.YieldFrom)):
                p = (st.value.lineno, st.value.col_offset)
                if best is None or p < best:
                    best = p
            visit(st)
        return best

    def fixture_record(self, fn, dec):
        name = fn.name
        nk = kw(dec, "name")
        if isinstance(nk, ast.Constant) and isinstance(nk.value, str):
            name = nk.value
        scope = "function"
        sk = kw(dec, "scope")
        if isinstance(sk, ast.Constant) and isinstance(sk.value, str) and sk.value in SCOPES:
            scope = sk.value
        ak = kw(dec, "autouse")
        autouse = isinstance(ak, ast.Constant) and ak.value is True
        deps = [p.arg for p in self.params(fn) if p.arg not in ("self", "request")]
        y = self.first_yield(fn)
        ret = None
        ret_alt = []
        if fn.returns is not None:
            r = fn.returns
            if y is not None and isinstance(r, ast.Subscript):
                sl = r.slice
                first = sl.elts[0] if isinstance(sl, ast.Tuple) and sl.elts else sl
                ret = ast.unparse(first)
                r_for_alt = first
            else:
                ret = ast.unparse(r)
                r_for_alt = r
            # the annotation as written (quote style of literals inside it) is as good as CPython's rendering
            seg = ast.get_source_segment(self.source, r_for_alt)
            if seg: ret_alt.append(seg)
            # a string in type position is a forward reference and may be shown by its content; the
            # arguments of Literal[...] and the metadata of Annotated[...] are values and stay as they are
            for mode in ("src", "repr"):
                ret_alt.append(self.lenient_annotation(r_for_alt, mode))
            if isinstance(r_for_alt, ast.Constant) and isinstance(r_for_alt.value, str):
                # string forward reference: quoted source or its content are both fine
                ret_alt += [r_for_alt.value, '"%s"' % r_for_alt.value, "'%s'" % r_for_alt.value]
        doc = None
        if fn.body and isinstance(fn.body[0], ast.Expr) and isinstance(fn.body[0].value, ast.Constant) and isinstance(fn.body[0].value.value, str):
            doc = inspect.cleandoc(fn.body[0].value.value)
        nt = self.def_name_token(fn)
        rec = dict(name=name, func=fn.name, line=fn.lineno, end_line=fn.end_lineno, scope=scope, autouse=autouse, deps=deps,
                   is_generator=y is not None, yield_line=(y[0] if y else None), ret=ret, ret_alt=ret_alt, doc=doc)
        if nt is not None:
            s16, sb = self.pos(nt.start[0], nt.start[1])
            e16, eb = self.pos(nt.end[0], nt.end[1])
            rec.update(name_line=nt.start[0], name_start=s16, name_end=e16, name_start_b=sb, name_end_b=eb)
        return rec

    def lenient_annotation(self, n, mode):
        keep = lambda x: (ast.get_source_segment(self.source, x) or ast.unparse(x)) if mode == "src" else ast.unparse(x)
        R = lambda x: self.lenient_annotation(x, mode)
        if isinstance(n, ast.Constant) and isinstance(n.value, str): return n.value
        if isinstance(n, ast.Name): return n.id
        if isinstance(n, ast.Attribute): return "%s.%s" % (R(n.value), n.attr)
        if isinstance(n, ast.BinOp) and isinstance(n.op, ast.BitOr): return "%s | %s" % (R(n.left), R(n.right))
        if isinstance(n, ast.List): return "[%s]" % ", ".join(R(e) for e in n.elts)
        if isinstance(n, ast.Tuple): return ", ".join(R(e) for e in n.elts)
        if isinstance(n, ast.Subscript):
            base = R(n.value)
            last = base.rsplit(".", 1)[-1]
            if last == "Literal": return "%s[%s]" % (base, keep(n.slice) if not isinstance(n.slice, ast.Tuple) else ", ".join(keep(e) for e in n.slice.elts))
            if last == "Annotated" and isinstance(n.slice, ast.Tuple):
                return "%s[%s]" % (base, ", ".join(R(e) if i == 0 else keep(e) for i, e in enumerate(n.slice.elts)))
            return "%s[%s]" % (base, R(n.slice))
        return keep(n)

    def add_param_usages(self, fn, skip):
        for p in self.params(fn):
            if p.arg in skip:
                continue
            s16, sb = self.ast_pos(p.lineno, p.col_offset)
            # the name token only (annotations excluded)
            e_b = p.col_offset + len(p.arg.encode("utf-8"))
            e16, _ = self.ast_pos(p.lineno, e_b)
            self.usages.append(dict(name=p.arg, line=p.lineno, start=s16, end=e16, start_b=sb, end_b=e_b, kind="param"))

    def add_string_usage(self, node, kind, name=None, whole=None):
        span = self.string_content_span(node)
        n = name if name is not None else node.value
        rec = dict(name=n, line=node.lineno, kind=kind)
        if span is not None:
            _, s16, e16, sb, eb = span
            if whole is not None:
                # the name is a substring of a comma separated argnames string
                off_chars = whole
                content = node.value
                s16 += len(content[:off_chars].encode("utf-16-le")) // 2
                sb += len(content[:off_chars].encode("utf-8"))
                e16 = s16 + len(n.encode("utf-16-le")) // 2
                eb = sb + len(n.encode("utf-8"))
            rec.update(start=s16, end=e16, start_b=sb, end_b=eb)
        self.usages.append(rec)

    def usefixtures_from_expr(self, e, kind):
        if isinstance(e, ast.Call) and is_mark(e.func, "usefixtures"):
            for a in e.args:
                if isinstance(a, ast.Constant) and isinstance(a.value, str):
                    self.add_string_usage(a, kind)
        elif isinstance(e, (ast.List, ast.Tuple)):
            for x in e.elts:
                self.usefixtures_from_expr(x, kind)

    def decorators(self, node):
        for d in node.decorator_list:
            if isinstance(d, ast.Call) and is_mark(d.func, "usefixtures"):
                for a in d.args:
                    if isinstance(a, ast.Constant) and isinstance(a.value, str):
                        self.add_string_usage(a, "usefixtures")
            if isinstance(d, ast.Call) and is_mark(d.func, "parametrize") and not isinstance(node, ast.ClassDef):
                ind = kw(d, "indirect")
                first = d.args[0] if d.args else kw(d, "argnames")
                if ind is None or first is None:
                    continue
                # argnames: one comma-separated string, or a tuple / list of strings
                # (pytest: [x.strip() for x in argnames.split(",") if x.strip()])
                entries = []   # (name, node, offset-inside-string or None)
                if isinstance(first, ast.Constant) and isinstance(first.value, str):
                    off = 0
                    for part in first.value.split(","):
                        nm = part.strip()
                        lead = len(part) - len(part.lstrip())
                        if nm:
                            entries.append((nm, first, off + lead))
                        off += len(part) + 1
                elif isinstance(first, (ast.Tuple, ast.List)):
                    for el in first.elts:
                        if isinstance(el, ast.Constant) and isinstance(el.value, str) and el.value.strip():
                            entries.append((el.value.strip(), el, None))
                else:
                    continue
                names = [e[0] for e in entries]
                if isinstance(ind, ast.Constant) and ind.value is True:
                    for nm, node_, off in entries:
                        if off is None:
                            self.add_string_usage(node_, "indirect")
                        else:
                            self.add_string_usage(node_, "indirect", name=nm, whole=off)
                elif isinstance(ind, (ast.List, ast.Tuple)):
                    for el in ind.elts:
                        if isinstance(el, ast.Constant) and isinstance(el.value, str) and el.value in names:
                            self.add_string_usage(el, "indirect")

    def visit_body(self, body, in_class):
        for st in body:
            if isinstance(st, ast.Assign):
                # assignment-style fixture:  name = pytest.fixture(...)(func)
                v = st.value
                if isinstance(v, ast.Call) and isinstance(v.func, ast.Call) and is_fixture_decorator(v.func.func):
                    for t in st.targets:
                        if isinstance(t, ast.Name):
                            s16, sb = self.ast_pos(t.lineno, t.col_offset)
                            e16, eb = self.ast_pos(t.end_lineno, t.end_col_offset)
                            # the decorator call's arguments mean what they mean above a def
                            dec = v.func
                            fname = t.id
                            nk = kw(dec, "name")
                            if isinstance(nk, ast.Constant) and isinstance(nk.value, str): fname = nk.value
                            sk = kw(dec, "scope")
                            fscope = sk.value if isinstance(sk, ast.Constant) and isinstance(sk.value, str) and sk.value in SCOPES else "function"
                            ak = kw(dec, "autouse")
                            self.fixtures.append(dict(name=fname, func=None, line=st.lineno, end_line=st.lineno, scope=fscope, autouse=isinstance(ak, ast.Constant) and ak.value is True, deps=[],
                                                      is_generator=False, yield_line=None, ret=None, ret_alt=[], doc=None,
                                                      name_line=t.lineno, name_start=s16, name_end=e16, name_start_b=sb, name_end_b=eb, assignment=True))
                if any(isinstance(t, ast.Name) and t.id == "pytestmark" for t in st.targets):
                    self.usefixtures_from_expr(st.value, "pytestmark")
            elif isinstance(st, ast.AnnAssign):
                if isinstance(st.target, ast.Name) and st.target.id == "pytestmark" and st.value is not None:
                    self.usefixtures_from_expr(st.value, "pytestmark")
            elif isinstance(st, ast.ClassDef):
                self.decorators(st)
                self.visit_body(st.body, True)
            elif isinstance(st, (ast.FunctionDef, ast.AsyncFunctionDef)):
                self.decorators(st)
                dec = next((d for d in st.decorator_list if is_fixture_decorator(d)), None)
                if dec is not None:
                    self.fixtures.append(self.fixture_record(st, dec))
                    self.add_param_usages(st, ("self", "request"))
                if st.name.startswith("test_"):
                    self.add_param_usages(st, ("self",))

    def run(self):
        self.visit_body(self.tree.body, False)
        return dict(fixtures=self.fixtures, usages=self.usages)


def extract(source):
    return Extractor(source).run()


if __name__ == "__main__":
    print(json.dumps(extract(open(sys.argv[1]).read()), indent=1))
