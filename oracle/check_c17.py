#!/usr/bin/env python3
"""Second pass of C17: edited documents produced by the server's quick fix / completion edit are
re-parsed with CPython: valid syntax, the fixture is a parameter of the same function, every other
function is unchanged.  stdin: JSONL {id, original, edited, function, name}; stdout: JSONL verdicts."""
import sys, json, ast

def funcs(tree):
    out = {}
    for n in ast.walk(tree):
        if isinstance(n, (ast.FunctionDef, ast.AsyncFunctionDef)):
            out.setdefault(n.name, []).append(n)
    return out

for line in sys.stdin:
    if not line.strip(): continue
    r = json.loads(line)
    res = {"id": r["id"], "tag": r.get("tag"), "ok": True, "reason": ""}
    try:
        t1 = ast.parse(r["edited"])
    except SyntaxError as e:
        res.update(ok=False, reason="edited document is not valid Python: %s" % e.msg)
        print(json.dumps(res)); continue
    t0 = ast.parse(r["original"])
    f0, f1 = funcs(t0), funcs(t1)
    if set(f0) != set(f1):
        res.update(ok=False, reason="set of functions changed")
    else:
        for name, nodes in f0.items():
            for k, n0 in enumerate(nodes):
                n1 = f1[name][k]
                if name == r["function"]:
                    a = n1.args
                    params = [x.arg for x in a.posonlyargs + a.args + a.kwonlyargs]
                    if r["name"] not in params:
                        res.update(ok=False, reason="fixture is not a parameter of the target function after the edit (params %s)" % params)
                    # nothing but the signature may change
                    if ast.dump(ast.Module(body=n0.body, type_ignores=[])) != ast.dump(ast.Module(body=n1.body, type_ignores=[])):
                        res.update(ok=False, reason="body of the target function changed")
                    p0 = [x.arg for x in n0.args.posonlyargs + n0.args.args + n0.args.kwonlyargs]
                    if [x for x in params if x != r["name"]] != p0:
                        res.update(ok=False, reason="existing parameters changed: %s -> %s" % (p0, params))
                elif ast.dump(n0) != ast.dump(n1):
                    res.update(ok=False, reason="another function was touched: %s" % name)
    print(json.dumps(res))
