//! LD_PRELOAD shim for the real server binary: answers `getrandom` with bytes derived from the
//! VSEED environment variable, which pins std's RandomState keys (hash iteration order) of the
//! process.  Used only for the labelled hash-seed sweeps of C08/C20.

#[no_mangle]
pub unsafe extern "C" fn getrandom(buf: *mut u8, len: usize, _flags: u32) -> isize {
    let seed: u64 = std::env::var("VSEED").ok().and_then(|s| s.parse().ok()).unwrap_or(0);
    let mut x = seed ^ 0x9E37_79B9_7F4A_7C15;
    for i in 0..len {
        x = x.wrapping_add(0x9E37_79B9_7F4A_7C15);
        let mut z = x;
        z = (z ^ (z >> 30)).wrapping_mul(0xBF58_476D_1CE4_E5B9);
        z = (z ^ (z >> 27)).wrapping_mul(0x94D0_49BB_1331_11EB);
        z ^= z >> 31;
        *buf.add(i) = z as u8;
    }
    len as isize
}
