//! E1 glue: scenarios (sequential pre-state + model threads of operations) executed on the real
//! FixtureDatabase under the vsched scheduler, with lock naming and quiescent snapshots.

use crate::db::{index_invariants, index_snapshot, IndexParts};
use crate::ws::ROOT;
use pytest_language_server::FixtureDatabase;
use std::collections::{BTreeSet, HashMap};
use std::path::PathBuf;
use std::sync::Arc;
use std::time::Duration;
use vsched::{Body, ExecConfig, Outcome};

pub type OpFn = Arc<dyn Fn(&Arc<FixtureDatabase>) + Send + Sync>;

#[derive(Clone)]
pub struct Op {
    pub desc: String,
    pub f: OpFn,
}

pub fn p(rel: &str) -> PathBuf {
    PathBuf::from(format!("{}/{}", ROOT, rel))
}

pub fn analyze(rel: &str, text: &str) -> Op {
    let (r, t) = (rel.to_string(), text.to_string());
    Op {
        desc: format!("analyze_file({}, {:?})", rel, text),
        f: Arc::new(move |db| db.analyze_file(p(&r), &t)),
    }
}
pub fn analyze_fresh(rel: &str, text: &str) -> Op {
    let (r, t) = (rel.to_string(), text.to_string());
    Op {
        desc: format!("scan-worker analyze_file_fresh({}, {:?})", rel, text),
        f: Arc::new(move |db| db.verif_analyze_file_fresh(p(&r), &t)),
    }
}

pub fn close(rel: &str) -> Op {
    let r = rel.to_string();
    Op {
        desc: format!("didClose: cleanup_file_cache({})", rel),
        f: Arc::new(move |db| db.cleanup_file_cache(&p(&r))),
    }
}

#[derive(Clone)]
pub struct Scenario {
    pub name: String,
    pub pre: Vec<Op>,
    pub threads: Vec<Vec<Op>>,
}

/// Route the repository's per-file analysis lock (hook H3) into the scheduler.
pub fn install_file_lock_hook() {
    let _ = pytest_language_server::fixtures::verif_hooks::FILE_LOCK_HOOK.set(|addr, acquire| {
        if acquire {
            vsched::acquire(addr, vsched::Mode::Exclusive)
        } else {
            vsched::release(addr, vsched::Mode::Exclusive)
        }
    });
}

pub fn lock_names(db: &FixtureDatabase) -> HashMap<usize, String> {
    let mut m = HashMap::new();
    macro_rules! reg {
        ($f:ident) => {
            for (i, a) in db.$f.verif_shard_lock_addrs().into_iter().enumerate() {
                m.insert(a, format!("{}#{}", stringify!($f), i));
            }
        };
    }
    reg!(definitions);
    reg!(file_definitions);
    reg!(usages);
    reg!(usage_by_fixture);
    reg!(file_cache);
    reg!(undeclared_fixtures);
    reg!(imports);
    reg!(canonical_path_cache);
    reg!(line_index_cache);
    reg!(ast_cache);
    reg!(cycle_cache);
    reg!(available_fixtures_cache);
    reg!(imported_fixtures_cache);
    reg!(plugin_fixture_files);
    reg!(file_analysis_locks);
    m
}

/// definitions / usages per key in *vector order* (registration order) — used only to show that
/// interleavings really collide (the verdict compares multisets)
pub fn ordered_fingerprint(db: &FixtureDatabase) -> u64 {
    let mut v: Vec<String> = Vec::new();
    for e in db.definitions.iter() {
        v.push(format!("{} {:?}", e.key(), e.value().iter().map(|d| crate::db::rel(&d.file_path, ROOT)).collect::<Vec<_>>()));
    }
    for e in db.usage_by_fixture.iter() {
        v.push(format!("{} {:?}", e.key(), e.value().iter().map(|(p, _)| crate::db::rel(p, ROOT)).collect::<Vec<_>>()));
    }
    v.sort();
    crate::db::hash_lines(&v)
}

pub struct Run {
    pub outcome: Outcome,
    pub ordered: u64,
    /// index snapshot at quiescence (None when the execution was aborted)
    pub snapshot: Option<Vec<String>>,
    pub invariants: Vec<String>,
    pub db: Option<Arc<FixtureDatabase>>,
}

/// Parts of the index C09/C10 compare: definitions, reverse indexes, usages, file cache, imports
/// (undeclared findings are analysis-order dependent by design and judged by C06).
pub fn snap(db: &FixtureDatabase) -> Vec<String> {
    index_snapshot(db, ROOT, IndexParts::CORE)
}

/// Execute one schedule of `sc` (choices = replay prefix, then default policy).
pub fn run_schedule(sc: &Scenario, choices: &[usize], horizon: usize) -> Run {
    let sc = sc.clone();
    let choices = choices.to_vec();
    install_file_lock_hook();
    crate::seed::on_fresh_thread(move || {
        let db = Arc::new(FixtureDatabase::new());
        for op in &sc.pre {
            (op.f)(&db);
        }
        let names = lock_names(&db);
        let bodies: Vec<Body> = sc
            .threads
            .iter()
            .map(|ops| {
                let ops = ops.clone();
                let db = db.clone();
                Box::new(move || {
                    for op in &ops {
                        (op.f)(&db);
                    }
                }) as Body
            })
            .collect();
        let outcome = vsched::run_execution(
            bodies,
            ExecConfig { light: false, choices, horizon, lock_names: names, watchdog: Duration::from_secs(10) },
        );
        let (snapshot, invariants) = if outcome.abort.is_none() {
            (Some(snap(&db)), index_invariants(&db, ROOT))
        } else {
            (None, vec![])
        };
        let ordered = ordered_fingerprint(&db);
        Run { outcome, snapshot, invariants, ordered, db: Some(db) }
    })
}

/// All sequential executions of the scenario's operations (every interleaving at operation
/// granularity that preserves each thread's program order), as a set of quiescent snapshots.
pub fn sequential_outcomes(sc: &Scenario) -> BTreeSet<Vec<String>> {
    fn rec(sc: &Scenario, pos: &mut Vec<usize>, order: &mut Vec<(usize, usize)>, out: &mut Vec<Vec<(usize, usize)>>) {
        let mut any = false;
        for t in 0..sc.threads.len() {
            if pos[t] < sc.threads[t].len() {
                any = true;
                order.push((t, pos[t]));
                pos[t] += 1;
                rec(sc, pos, order, out);
                pos[t] -= 1;
                order.pop();
            }
        }
        if !any {
            out.push(order.clone());
        }
    }
    let mut orders = Vec::new();
    rec(sc, &mut vec![0; sc.threads.len()], &mut Vec::new(), &mut orders);
    let mut set = BTreeSet::new();
    for o in orders {
        let sc = sc.clone();
        let s = crate::seed::on_fresh_thread(move || {
            let db = Arc::new(FixtureDatabase::new());
            for op in &sc.pre {
                (op.f)(&db);
            }
            for (t, i) in o {
                (sc.threads[t][i].f)(&db);
            }
            snap(&db)
        });
        set.insert(s);
    }
    set
}

/// Like `sequential_outcomes`, with `then` executed after all the scenario's operations.
pub fn sequential_outcomes_then(sc: &Scenario, then: &Op) -> BTreeSet<Vec<String>> {
    let mut sc2 = sc.clone();
    // a final operation after everything else = a further thread whose only operation runs last;
    // enumerate the orders of the original scenario and append the operation to each
    let base = sc.clone();
    sc2.threads.clear();
    let mut set = BTreeSet::new();
    fn rec(sc: &Scenario, pos: &mut Vec<usize>, order: &mut Vec<(usize, usize)>, out: &mut Vec<Vec<(usize, usize)>>) {
        let mut any = false;
        for t in 0..sc.threads.len() {
            if pos[t] < sc.threads[t].len() {
                any = true;
                order.push((t, pos[t]));
                pos[t] += 1;
                rec(sc, pos, order, out);
                pos[t] -= 1;
                order.pop();
            }
        }
        if !any {
            out.push(order.clone());
        }
    }
    let mut orders = Vec::new();
    rec(&base, &mut vec![0; base.threads.len()], &mut Vec::new(), &mut orders);
    for o in orders {
        let sc = base.clone();
        let then = then.clone();
        let s = crate::seed::on_fresh_thread(move || {
            let db = Arc::new(FixtureDatabase::new());
            for op in &sc.pre {
                (op.f)(&db);
            }
            for (t, i) in o {
                (sc.threads[t][i].f)(&db);
            }
            (then.f)(&db);
            snap(&db)
        });
        set.insert(s);
    }
    set
}

pub fn describe(sc: &Scenario) -> serde_json::Value {
    serde_json::json!({
        "name": sc.name,
        "pre_state": sc.pre.iter().map(|o| o.desc.clone()).collect::<Vec<_>>(),
        "threads": sc.threads.iter().map(|t| t.iter().map(|o| o.desc.clone()).collect::<Vec<_>>()).collect::<Vec<_>>(),
    })
}
