pub mod seed;
