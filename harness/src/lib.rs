pub mod checks;
pub mod db;
pub mod e5;
pub mod layouts;
pub mod lsp;
pub mod report;
pub mod seed;
pub mod ws;
