//! Building real `FixtureDatabase`s from abstract workspaces, deep clone, and canonical snapshots.

use crate::ws::{Rendered, Ws};
use pytest_language_server::{FixtureDatabase, FixtureDefinition};
use std::path::{Path, PathBuf};
use std::sync::Arc;

/// Build a database by analysing the files of `ws` in `order` (indices into `ws.files`).
/// `fresh` selects the workspace scan's no-cleanup path (hook H2) instead of `analyze_file`.
pub fn build_db(ws: &Ws, r: &Rendered, order: &[usize], fresh: bool) -> FixtureDatabase {
    build_db_at(ws, r, order, fresh, crate::ws::ROOT)
}

pub fn build_db_at(ws: &Ws, r: &Rendered, order: &[usize], fresh: bool, root: &str) -> FixtureDatabase {
    let db = FixtureDatabase::new();
    for (i, f) in ws.files.iter().enumerate() {
        // entry-point modules are registered as plugin files by the real scan wherever they live:
        // workspace plugins (editable installs) and installed third-party plugins alike
        if f.plugin || f.is_third_party() {
            db.plugin_fixture_files.insert(ws.path_in(root, i), ());
        }
    }
    for &i in order {
        if fresh {
            db.verif_analyze_file_fresh(ws.path_in(root, i), &r.texts[i]);
        } else {
            db.analyze_file(ws.path_in(root, i), &r.texts[i]);
        }
    }
    db
}

/// Deep clone: every map is copied, nothing is shared with the original.
pub fn deep_clone(db: &FixtureDatabase) -> FixtureDatabase {
    use std::sync::atomic::{AtomicU64, Ordering};
    use std::sync::Mutex;
    FixtureDatabase {
        definitions: Arc::new((*db.definitions).clone()),
        file_definitions: Arc::new((*db.file_definitions).clone()),
        usages: Arc::new((*db.usages).clone()),
        usage_by_fixture: Arc::new((*db.usage_by_fixture).clone()),
        file_cache: Arc::new((*db.file_cache).clone()),
        undeclared_fixtures: Arc::new((*db.undeclared_fixtures).clone()),
        imports: Arc::new((*db.imports).clone()),
        canonical_path_cache: Arc::new((*db.canonical_path_cache).clone()),
        line_index_cache: Arc::new((*db.line_index_cache).clone()),
        ast_cache: Arc::new((*db.ast_cache).clone()),
        definitions_version: Arc::new(AtomicU64::new(
            db.definitions_version.load(Ordering::SeqCst),
        )),
        cycle_cache: Arc::new((*db.cycle_cache).clone()),
        available_fixtures_cache: Arc::new((*db.available_fixtures_cache).clone()),
        imported_fixtures_cache: Arc::new((*db.imported_fixtures_cache).clone()),
        site_packages_paths: Arc::new(Mutex::new(db.site_packages_paths.lock().unwrap().clone())),
        editable_install_roots: Arc::new(Mutex::new(
            db.editable_install_roots.lock().unwrap().clone(),
        )),
        workspace_root: Arc::new(Mutex::new(db.workspace_root.lock().unwrap().clone())),
        plugin_fixture_files: Arc::new((*db.plugin_fixture_files).clone()),
        // locks are per database: a copy starts with none held
        file_analysis_locks: Arc::new(dashmap::DashMap::new()),
    }
}

pub fn rel(p: &Path, root: &str) -> String {
    p.strip_prefix(root)
        .map(|x| x.to_string_lossy().to_string())
        .unwrap_or_else(|_| p.to_string_lossy().to_string())
}

pub fn def_key(d: &FixtureDefinition, root: &str) -> String {
    format!("{}:{}:{}", rel(&d.file_path, root), d.line, d.name)
}

fn def_full(d: &FixtureDefinition, root: &str) -> String {
    format!(
        "{}:{}-{}:{}[{}..{}] doc={:?} ret={:?} tp={} plugin={} deps={:?} scope={:?} yield={:?} autouse={}",
        rel(&d.file_path, root),
        d.line,
        d.end_line,
        d.name,
        d.start_char,
        d.end_char,
        d.docstring,
        d.return_type,
        d.is_third_party,
        d.is_plugin,
        d.dependencies,
        d.scope,
        d.yield_line,
        d.autouse
    )
}

/// Which parts of the index to include in an `index_snapshot`.
#[derive(Clone, Copy)]
pub struct IndexParts {
    pub undeclared: bool,
    pub file_cache: bool,
    pub imports: bool,
}
impl IndexParts {
    pub const ALL: IndexParts = IndexParts {
        undeclared: true,
        file_cache: true,
        imports: true,
    };
    pub const CORE: IndexParts = IndexParts {
        undeclared: false,
        file_cache: true,
        imports: true,
    };
}

/// The index maps as sorted multisets of strings (order inside per-name / per-file vectors is
/// deliberately dropped: it is registration order, which C08 judges through the answers).
pub fn index_snapshot(db: &FixtureDatabase, root: &str, parts: IndexParts) -> Vec<String> {
    let mut v: Vec<String> = Vec::new();
    for e in db.definitions.iter() {
        if e.value().is_empty() {
            v.push(format!("DEF-EMPTY {}", e.key()));
        }
        for d in e.value() {
            if &d.name != e.key() {
                v.push(format!("DEF-KEYMISMATCH {} {}", e.key(), def_full(d, root)));
            }
            v.push(format!("DEF {}", def_full(d, root)));
        }
    }
    for e in db.file_definitions.iter() {
        let mut names: Vec<&String> = e.value().iter().collect();
        names.sort();
        v.push(format!("FILEDEFS {} {:?}", rel(e.key(), root), names));
    }
    for e in db.usages.iter() {
        for u in e.value() {
            v.push(format!(
                "USE {} {}:{}[{}..{}] (recorded file {})",
                rel(e.key(), root),
                u.name,
                u.line,
                u.start_char,
                u.end_char,
                rel(&u.file_path, root)
            ));
        }
    }
    for e in db.usage_by_fixture.iter() {
        if e.value().is_empty() {
            v.push(format!("REV-EMPTY {}", e.key()));
        }
        for (p, u) in e.value() {
            v.push(format!(
                "REV {} {} {}:{}[{}..{}]",
                e.key(),
                rel(p, root),
                u.name,
                u.line,
                u.start_char,
                u.end_char
            ));
        }
    }
    if parts.undeclared {
        for e in db.undeclared_fixtures.iter() {
            for u in e.value() {
                v.push(format!(
                    "UNDECL {} {}:{}[{}..{}] in {}@{}",
                    rel(e.key(), root),
                    u.name,
                    u.line,
                    u.start_char,
                    u.end_char,
                    u.function_name,
                    u.function_line
                ));
            }
        }
    }
    if parts.imports {
        for e in db.imports.iter() {
            let mut names: Vec<&String> = e.value().iter().collect();
            names.sort();
            v.push(format!("IMPORTS {} {:?}", rel(e.key(), root), names));
        }
    }
    if parts.file_cache {
        for e in db.file_cache.iter() {
            v.push(format!(
                "CACHE {} {:016x}",
                rel(e.key(), root),
                hash_str(e.value())
            ));
        }
    }
    v.sort();
    v
}

/// Structural invariants of the index (used by C09/C10/C06): returns violations.
pub fn index_invariants(db: &FixtureDatabase, root: &str) -> Vec<String> {
    let mut bad = Vec::new();
    // file_definitions[f] ∋ n  ⇔  some definition of n lives in f
    let mut from_defs: std::collections::BTreeSet<(String, String)> = Default::default();
    for e in db.definitions.iter() {
        if e.value().is_empty() {
            bad.push(format!("empty definitions vector left for {}", e.key()));
        }
        for d in e.value() {
            from_defs.insert((rel(&d.file_path, root), e.key().clone()));
        }
    }
    let mut from_rev: std::collections::BTreeSet<(String, String)> = Default::default();
    for e in db.file_definitions.iter() {
        for n in e.value() {
            from_rev.insert((rel(e.key(), root), n.clone()));
        }
    }
    for x in from_defs.difference(&from_rev) {
        bad.push(format!("definition {:?} missing from file_definitions", x));
    }
    for x in from_rev.difference(&from_defs) {
        bad.push(format!("file_definitions entry {:?} has no definition (dangling)", x));
    }
    // usage_by_fixture mirrors usages (multiset)
    let mut a: Vec<String> = Vec::new();
    for e in db.usages.iter() {
        for u in e.value() {
            a.push(format!(
                "{} {} {} {} {}",
                u.name,
                rel(e.key(), root),
                u.line,
                u.start_char,
                u.end_char
            ));
        }
    }
    let mut b: Vec<String> = Vec::new();
    for e in db.usage_by_fixture.iter() {
        if e.value().is_empty() {
            bad.push(format!("empty usage_by_fixture vector left for {}", e.key()));
        }
        for (p, u) in e.value() {
            if &u.name != e.key() {
                bad.push(format!("reverse index key {} holds usage of {}", e.key(), u.name));
            }
            b.push(format!(
                "{} {} {} {} {}",
                u.name,
                rel(p, root),
                u.line,
                u.start_char,
                u.end_char
            ));
        }
    }
    a.sort();
    b.sort();
    if a != b {
        let sa: std::collections::BTreeSet<_> = a.iter().collect();
        let sb: std::collections::BTreeSet<_> = b.iter().collect();
        for x in sa.difference(&sb) {
            bad.push(format!("usage {:?} missing from reverse index", x));
        }
        for x in sb.difference(&sa) {
            bad.push(format!("reverse index entry {:?} has no usage (stale)", x));
        }
        if sa == sb {
            bad.push("usages and reverse index differ in multiplicity (duplicate)".to_string());
        }
    }
    // what a reader makes of the index: no definition's reference list names a usage twice (readers may
    // not rely on any particular order of the entries concurrent analyses leave in the shared vectors)
    let defs: Vec<pytest_language_server::FixtureDefinition> = db.definitions.iter().flat_map(|e| e.value().clone()).collect();
    for d in &defs {
        let refs = db.find_references_for_definition(d);
        let mut keys: Vec<(String, usize, usize)> = refs.iter().map(|u| (rel(&u.file_path, root), u.line, u.start_char)).collect();
        let n = keys.len();
        keys.sort();
        keys.dedup();
        if keys.len() != n {
            bad.push(format!("the reference list of {} ({}:{}) names a usage more than once ({} entries, {} distinct)", d.name, rel(&d.file_path, root), d.line, n, keys.len()));
        }
    }
    bad
}

pub fn hash_str(s: &str) -> u64 {
    // FNV-1a: independent of the process hash seed
    let mut h: u64 = 0xcbf29ce484222325;
    for b in s.as_bytes() {
        h ^= *b as u64;
        h = h.wrapping_mul(0x100000001b3);
    }
    h
}

pub fn hash_lines(v: &[String]) -> u64 {
    let mut h: u64 = 0xcbf29ce484222325;
    for s in v {
        h ^= hash_str(s);
        h = h.wrapping_mul(0x100000001b3);
    }
    h
}

/// Every observable answer of the library API, as sorted lines.
pub fn answer_snapshot(db: &FixtureDatabase, root: &str, files: &[PathBuf]) -> Vec<String> {
    let mut v: Vec<String> = Vec::new();
    // go-to-definition at every recorded usage (first and last column of the token)
    let mut usage_list: Vec<(PathBuf, String, usize, usize, usize)> = Vec::new();
    for e in db.usages.iter() {
        for u in e.value() {
            usage_list.push((e.key().clone(), u.name.clone(), u.line, u.start_char, u.end_char));
        }
    }
    usage_list.sort();
    usage_list.dedup();
    for (p, name, line, s, e) in &usage_list {
        let cols: Vec<usize> = if e > s { vec![*s, e - 1] } else { vec![*s] };
        for c in cols {
            let d = db.find_fixture_definition(p, (*line as u32).saturating_sub(1), c as u32);
            v.push(format!(
                "GOTO {} {}:{}:{} -> {}",
                rel(p, root),
                name,
                line,
                c,
                d.map(|d| def_key(&d, root)).unwrap_or_else(|| "none".into())
            ));
        }
    }
    // references of every definition
    let mut defs: Vec<FixtureDefinition> = Vec::new();
    for e in db.definitions.iter() {
        for d in e.value() {
            defs.push(d.clone());
        }
    }
    defs.sort_by_key(|d| def_key(d, root));
    for d in &defs {
        let mut refs: Vec<String> = db
            .find_references_for_definition(d)
            .iter()
            .map(|u| format!("{}:{}:{}", rel(&u.file_path, root), u.line, u.start_char))
            .collect();
        refs.sort();
        v.push(format!("REFS {} <- {:?}", def_key(d, root), refs));
    }
    // available fixtures, scope mismatches, cycles-in-file, undeclared per file
    let mut fl: Vec<PathBuf> = files.to_vec();
    fl.sort();
    for f in &fl {
        let av: Vec<String> = db
            .get_available_fixtures(f)
            .iter()
            .map(|d| def_key(d, root))
            .collect();
        v.push(format!("AVAIL {} {:?}", rel(f, root), av));
        let mut mm: Vec<String> = db
            .detect_scope_mismatches_in_file(f)
            .iter()
            .map(|m| format!("{} ~ {}", def_key(&m.fixture, root), def_key(&m.dependency, root)))
            .collect();
        mm.sort();
        v.push(format!("MISMATCH {} {:?}", rel(f, root), mm));
        let mut cy: Vec<String> = db
            .detect_fixture_cycles_in_file(f)
            .iter()
            .map(|c| format!("{} {:?}", def_key(&c.fixture, root), c.cycle_path))
            .collect();
        cy.sort();
        v.push(format!("CYCLES-IN {} {:?}", rel(f, root), cy));
    }
    let mut cy: Vec<String> = db
        .detect_fixture_cycles()
        .iter()
        .map(|c| format!("{} {:?}", def_key(&c.fixture, root), c.cycle_path))
        .collect();
    cy.sort();
    v.push(format!("CYCLES {:?}", cy));
    let un: Vec<String> = db
        .get_unused_fixtures()
        .iter()
        .map(|(p, n)| format!("{}:{}", rel(p, root), n))
        .collect();
    v.push(format!("UNUSED {:?}", un));
    v
}

/// All permutations of 0..n (Heap's algorithm, deterministic order).
pub fn permutations(n: usize) -> Vec<Vec<usize>> {
    fn rec(k: usize, a: &mut Vec<usize>, out: &mut Vec<Vec<usize>>) {
        if k <= 1 {
            out.push(a.clone());
            return;
        }
        for i in 0..k {
            rec(k - 1, a, out);
            if k % 2 == 0 {
                a.swap(i, k - 1);
            } else {
                a.swap(0, k - 1);
            }
        }
    }
    let mut a: Vec<usize> = (0..n).collect();
    let mut out = Vec::new();
    rec(n, &mut a, &mut out);
    out.sort();
    out
}
