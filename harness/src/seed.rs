//! Hash-seed control.  std's `RandomState` obtains its per-thread keys from libc's `getrandom`
//! through a weak symbol; the harness binary defines `getrandom` itself (see main.rs, exported
//! by build.rs) and answers with bytes derived from this knob.  Every *fresh* thread therefore
//! starts from the same keys: HashMap / HashSet / DashMap iteration order becomes a deterministic
//! function of the code path and of the chosen seed.
use std::sync::atomic::{AtomicU64, Ordering};

pub static SEED: AtomicU64 = AtomicU64::new(0);

pub fn set_seed(s: u64) {
    SEED.store(s, Ordering::SeqCst);
}

pub fn fill(buf: &mut [u8]) {
    let mut x = SEED.load(Ordering::Relaxed) ^ 0x9E37_79B9_7F4A_7C15;
    for b in buf.iter_mut() {
        // splitmix64
        x = x.wrapping_add(0x9E37_79B9_7F4A_7C15);
        let mut z = x;
        z = (z ^ (z >> 30)).wrapping_mul(0xBF58_476D_1CE4_E5B9);
        z = (z ^ (z >> 27)).wrapping_mul(0x94D0_49BB_1331_11EB);
        z ^= z >> 31;
        *b = z as u8;
    }
}

static SEED_LOCK: std::sync::Mutex<()> = std::sync::Mutex::new(());

/// Run `f` on a fresh OS thread whose `RandomState` keys are derived from `seed`.
/// The thread initialises its keys (first `RandomState::new()`) while the seed knob is held
/// under a lock, so concurrent callers cannot observe each other's seed.
pub fn on_fresh_thread_seeded<T: Send, F: FnOnce() -> T + Send>(seed: u64, f: F) -> T {
    std::thread::scope(|s| {
        let (tx, rx) = std::sync::mpsc::channel::<()>();
        let h = {
            let _g = SEED_LOCK.lock().unwrap_or_else(|e| e.into_inner());
            set_seed(seed);
            let h = std::thread::Builder::new()
                .stack_size(16 << 20)
                .spawn_scoped(s, move || {
                    let _ = std::collections::hash_map::RandomState::new();
                    let _ = tx.send(());
                    f()
                })
                .expect("spawn");
            let _ = rx.recv();
            h
        };
        let r = h.join().unwrap_or_else(|e| std::panic::resume_unwind(e));
        crate::report::tick();
        r
    })
}

/// The run's base hash seed: VERIF_SEED (default 0).  Enumerations are complete whatever the
/// seed; it only selects which HashMap/DashMap iteration orders the subject runs under.
pub fn base_seed() -> u64 {
    static BASE: std::sync::OnceLock<u64> = std::sync::OnceLock::new();
    *BASE.get_or_init(|| std::env::var("VERIF_SEED").ok().and_then(|s| s.parse().ok()).unwrap_or(0))
}

/// Run `f` on a fresh OS thread (fresh `RandomState` keys from the base seed) and return its result.
pub fn on_fresh_thread<T: Send, F: FnOnce() -> T + Send>(f: F) -> T {
    on_fresh_thread_seeded(base_seed(), f)
}
