/// Override of libc's getrandom (see mc::seed): std's RandomState keys become harness-chosen.
#[no_mangle]
pub extern "C" fn getrandom(buf: *mut u8, len: usize, _flags: u32) -> isize {
    let s = unsafe { std::slice::from_raw_parts_mut(buf, len) };
    mc::seed::fill(s);
    len as isize
}

fn main() {
    let args: Vec<String> = std::env::args().collect();
    if args.len() < 2 {
        eprintln!("usage: verif <Cxx> [--replay file]");
        std::process::exit(2);
    }
    let id = args[1].as_str();
    // quiet panic messages from catch_unwind'ed subjects (they are reported by the checks)
    if std::env::var("VERIF_PANIC_TRACE").is_err() {
        std::panic::set_hook(Box::new(|_| {}));
    }
    if args.len() >= 4 && args[2] == "--replay" {
        let v: serde_json::Value =
            serde_json::from_str(&std::fs::read_to_string(&args[3]).expect("replay file")).expect("json");
        match id {
            "C01" | "C02" | "C04" | "C05" | "C08" | "C16" => mc::checks::wscheck::replay(&v["case"]),
            "C03" => mc::checks::c03::replay(&v["case"]),
            "C15" => mc::checks::c15::replay(&v["case"]),
            "C17" => mc::checks::c17::replay(&v["case"]),
            "C18" => mc::checks::c18::replay(&v["case"]),
            "C06" => mc::checks::c06::replay(&v["case"]),
            "C07" => mc::checks::c07::replay(&v["case"]),
            "C09" => mc::checks::c09::replay(&v["case"]),
            "C10" => mc::checks::c10::replay(&v["case"]),
            "C11" => mc::checks::c11::replay(&v["case"]),
            "C12" => mc::checks::c12::replay(&v["case"]),
            _ => {
                // C13 / C14 / C19 / C20: the recorded case is self-contained (tree, layout,
                // session history or workspace with the observed and expected values); show it
                println!("{}", serde_json::to_string_pretty(&v).unwrap());
            }
        }
        return;
    }
    if std::env::var("VERIF_CHILD").is_err() {
        std::process::exit(supervise(id));
    }
    let rep: &'static mc::report::Report = Box::leak(Box::new(mc::report::Report::new(id)));
    mc::report::start_stall_watchdog(rep);
    match id {
        "C01" => mc::checks::c01::run(rep),
        "C02" => mc::checks::c02::run(rep),
        "C03" => mc::checks::c03::run(rep),
        "C04" => mc::checks::c04::run(rep),
        "C05" => mc::checks::c05::run(rep),
        "C06" => mc::checks::c06::run(rep),
        "C07" => mc::checks::c07::run(rep),
        "C13" => mc::checks::c13::run(rep),
        "C14" => mc::checks::c14::run(rep),
        "C15" => mc::checks::c15::run(rep),
        "C16" => mc::checks::c16::run(rep),
        "C17" => mc::checks::c17::run(rep),
        "C18" => mc::checks::c18::run(rep),
        "C20" => mc::checks::c20::run(rep),
        "C19" => mc::checks::c19::run(rep),
        "C08" => mc::checks::c08::run(rep),
        "C09" => mc::checks::c09::run(rep),
        "C10" => mc::checks::c10::run(rep),
        "C11" => mc::checks::c11::run(rep),
        "C12" => mc::checks::c12::run(rep),
        _ => {
            eprintln!("unknown check {}", id);
            std::process::exit(2)
        }
    }
    std::process::exit(rep.finish());
}

/// Run the check in a child process. The code under test can take the whole process down (stack
/// overflow from unbounded recursion, abort): that must end the check with a verdict — the child
/// being killed by a signal is reported as a violation, with the tail of its stderr — while every
/// ordinary outcome (exit 0 / 1 / 2) is passed through unchanged.
fn supervise(id: &str) -> i32 {
    use std::io::{BufRead, BufReader};
    use std::process::{Command, Stdio};
    let exe = std::env::current_exe().expect("current_exe");
    let mut child = match Command::new(exe).arg(id).env("VERIF_CHILD", "1").stderr(Stdio::piped()).spawn() {
        Ok(c) => c,
        Err(e) => {
            eprintln!("MACHINERY: cannot start the check process: {}", e);
            return 2;
        }
    };
    let err = child.stderr.take().expect("stderr");
    let tail = std::thread::spawn(move || {
        let mut keep: std::collections::VecDeque<String> = std::collections::VecDeque::new();
        for l in BufReader::new(err).lines().map_while(Result::ok) {
            eprintln!("{}", l);
            keep.push_back(l);
            if keep.len() > 30 {
                keep.pop_front();
            }
        }
        keep.into_iter().collect::<Vec<String>>()
    });
    let status = child.wait().expect("wait");
    let tail = tail.join().unwrap_or_default();
    if let Some(code) = status.code() {
        return code;
    }
    #[cfg(unix)]
    let sig = std::os::unix::process::ExitStatusExt::signal(&status).unwrap_or(0);
    #[cfg(not(unix))]
    let sig = 0;
    let dir = "/verif/replay";
    let _ = std::fs::create_dir_all(dir);
    let path = format!("{}/{}-crash.json", dir, id);
    let what = format!("the check process was killed by signal {} while exercising the code under test (a crash of the subject: stack overflow from unbounded recursion, abort, ...); last lines of its stderr: {:?}", sig, tail);
    let body = serde_json::json!({"property": id, "fingerprint": format!("process killed by signal {}", sig), "what": what, "case": {"stderr_tail": tail}});
    let _ = std::fs::write(&path, serde_json::to_string_pretty(&body).unwrap());
    // no evidence rather than a stale file from an earlier run
    let _ = std::fs::remove_file(format!("/verif/evidence/{}.json", id));
    println!("VIOLATION property={} replay={}", id, path);
    println!("  fingerprint: process killed by signal {}", sig);
    println!("  what: {}", what);
    1
}
