/// Override of libc's getrandom (see mc::seed).
#[no_mangle]
pub extern "C" fn getrandom(buf: *mut u8, len: usize, _flags: u32) -> isize {
    let s = unsafe { std::slice::from_raw_parts_mut(buf, len) };
    mc::seed::fill(s);
    len as isize
}

fn main() {
    let order = |seed: u64| {
        mc::seed::set_seed(seed);
        mc::seed::on_fresh_thread(|| {
            let mut h = std::collections::HashSet::new();
            for i in 0..20 { h.insert(format!("k{}", i)); }
            h.into_iter().collect::<Vec<_>>().join(",")
        })
    };
    let a = order(1); let b = order(1); let c = order(2);
    println!("{}\n{}\n{}\nsame={} diff={}", a, b, c, a == b, a != c);
}
