/// Override of libc's getrandom (see mc::seed): std's RandomState keys become harness-chosen.
#[no_mangle]
pub extern "C" fn getrandom(buf: *mut u8, len: usize, _flags: u32) -> isize {
    let s = unsafe { std::slice::from_raw_parts_mut(buf, len) };
    mc::seed::fill(s);
    len as isize
}

fn main() {
    let args: Vec<String> = std::env::args().collect();
    if args.len() < 2 {
        eprintln!("usage: verif <Cxx> [--replay file]");
        std::process::exit(2);
    }
    let id = args[1].as_str();
    // quiet panic messages from catch_unwind'ed subjects (they are reported by the checks)
    if std::env::var("VERIF_PANIC_TRACE").is_err() {
        std::panic::set_hook(Box::new(|_| {}));
    }
    if args.len() >= 4 && args[2] == "--replay" {
        let v: serde_json::Value =
            serde_json::from_str(&std::fs::read_to_string(&args[3]).expect("replay file")).expect("json");
        match id {
            "C01" | "C02" | "C04" | "C05" | "C08" | "C16" => mc::checks::wscheck::replay(&v["case"]),
            "C03" => mc::checks::c03::replay(&v["case"]),
            "C15" => mc::checks::c15::replay(&v["case"]),
            "C17" => mc::checks::c17::replay(&v["case"]),
            "C18" => mc::checks::c18::replay(&v["case"]),
            "C06" => mc::checks::c06::replay(&v["case"]),
            "C07" => mc::checks::c07::replay(&v["case"]),
            "C09" => mc::checks::c09::replay(&v["case"]),
            "C10" => mc::checks::c10::replay(&v["case"]),
            "C11" => mc::checks::c11::replay(&v["case"]),
            "C12" => mc::checks::c12::replay(&v["case"]),
            _ => {
                // C13 / C14 / C19 / C20: the recorded case is self-contained (tree, layout,
                // session history or workspace with the observed and expected values); show it
                println!("{}", serde_json::to_string_pretty(&v).unwrap());
            }
        }
        return;
    }
    let rep: &'static mc::report::Report = Box::leak(Box::new(mc::report::Report::new(id)));
    match id {
        "C01" => mc::checks::c01::run(rep),
        "C02" => mc::checks::c02::run(rep),
        "C03" => mc::checks::c03::run(rep),
        "C04" => mc::checks::c04::run(rep),
        "C05" => mc::checks::c05::run(rep),
        "C06" => mc::checks::c06::run(rep),
        "C07" => mc::checks::c07::run(rep),
        "C13" => mc::checks::c13::run(rep),
        "C14" => mc::checks::c14::run(rep),
        "C15" => mc::checks::c15::run(rep),
        "C16" => mc::checks::c16::run(rep),
        "C17" => mc::checks::c17::run(rep),
        "C18" => mc::checks::c18::run(rep),
        "C20" => mc::checks::c20::run(rep),
        "C19" => mc::checks::c19::run(rep),
        "C08" => mc::checks::c08::run(rep),
        "C09" => mc::checks::c09::run(rep),
        "C10" => mc::checks::c10::run(rep),
        "C11" => mc::checks::c11::run(rep),
        "C12" => mc::checks::c12::run(rep),
        _ => {
            eprintln!("unknown check {}", id);
            std::process::exit(2)
        }
    }
    std::process::exit(rep.finish());
}
