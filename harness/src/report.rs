//! Evidence files, known findings, violation / replay artefacts.  Shared by every check.

use serde_json::{json, Map, Value};
use std::collections::BTreeMap;
use std::sync::Mutex;
use std::time::Instant;

pub const VERIF_DIR: &str = "/verif";

#[derive(Clone, Debug)]
pub struct Known {
    pub fingerprint: String,
    pub what: String,
}

pub fn load_known(property: &str) -> Vec<Known> {
    let p = format!("{}/known_findings.json", VERIF_DIR);
    let Ok(s) = std::fs::read_to_string(&p) else {
        return vec![];
    };
    let v: Value = serde_json::from_str(&s).expect("known_findings.json must parse");
    v["findings"]
        .as_array()
        .map(|a| {
            a.iter()
                .filter(|f| f["property"] == property)
                .map(|f| Known {
                    fingerprint: f["fingerprint"].as_str().unwrap_or("").to_string(),
                    what: f["what_fails"].as_str().unwrap_or("").to_string(),
                })
                .collect()
        })
        .unwrap_or_default()
}

struct Inner {
    violations: BTreeMap<String, (u64, String)>, // fingerprint -> (count, replay path)
    known_seen: BTreeMap<String, u64>,
    coverage: Map<String, Value>,
    samples: Vec<Value>,
    assumptions: Vec<String>,
    notes: Vec<String>,
    machinery_errors: Vec<String>,
}

pub struct Report {
    pub id: String,
    pub tier: String,
    pub seed: i64,
    start: Instant,
    known: Vec<Known>,
    inner: Mutex<Inner>,
}

pub fn tier() -> String {
    std::env::var("VERIF_TIER").unwrap_or_else(|_| "quick".into())
}
pub fn is_thorough() -> bool {
    tier() == "thorough"
}
pub fn seed() -> i64 {
    std::env::var("VERIF_SEED")
        .ok()
        .and_then(|s| s.parse().ok())
        .unwrap_or(0)
}

impl Report {
    pub fn new(id: &str) -> Report {
        Report {
            id: id.to_string(),
            tier: tier(),
            seed: seed(),
            start: Instant::now(),
            known: load_known(id),
            inner: Mutex::new(Inner {
                violations: BTreeMap::new(),
                known_seen: BTreeMap::new(),
                coverage: Map::new(),
                samples: Vec::new(),
                assumptions: Vec::new(),
                notes: Vec::new(),
                machinery_errors: Vec::new(),
            }),
        }
    }

    pub fn is_known(&self, fingerprint: &str) -> bool {
        self.known.iter().any(|k| k.fingerprint == fingerprint)
    }

    /// Record a property violation.  A fingerprint listed in known_findings.json is counted on the
    /// side; any other fingerprint gets (once) a replay artefact and a VIOLATION line.
    /// Returns true when the violation is *not* a known finding.
    pub fn violation(&self, fingerprint: &str, what: &str, replay: impl FnOnce() -> Value) -> bool {
        let mut g = self.inner.lock().unwrap();
        if self.is_known(fingerprint) {
            *g.known_seen.entry(fingerprint.to_string()).or_insert(0) += 1;
            return false;
        }
        if let Some(e) = g.violations.get_mut(fingerprint) {
            e.0 += 1;
            return true;
        }
        let n = g.violations.len();
        let dir = format!("{}/replay", VERIF_DIR);
        let _ = std::fs::create_dir_all(&dir);
        let path = format!("{}/{}-{}.json", dir, self.id, n);
        let body = json!({
            "property": self.id,
            "fingerprint": fingerprint,
            "what": what,
            "case": replay(),
        });
        let _ = std::fs::write(&path, serde_json::to_string_pretty(&body).unwrap());
        println!("VIOLATION property={} replay={}", self.id, path);
        println!("  fingerprint: {}", fingerprint);
        println!("  what: {}", what);
        g.violations.insert(fingerprint.to_string(), (1, path));
        true
    }

    /// Fast path for hot loops: true when `fingerprint` is a known finding or was already
    /// reported in this run — the occurrence is counted and nothing else needs to be built.
    pub fn count_if_seen(&self, fingerprint: &str) -> bool {
        let mut g = self.inner.lock().unwrap();
        if self.is_known(fingerprint) {
            *g.known_seen.entry(fingerprint.to_string()).or_insert(0) += 1;
            return true;
        }
        if let Some(e) = g.violations.get_mut(fingerprint) {
            e.0 += 1;
            return true;
        }
        false
    }

    pub fn machinery_error(&self, msg: &str) {
        eprintln!("MACHINERY-ERROR {}: {}", self.id, msg);
        self.inner
            .lock()
            .unwrap()
            .machinery_errors
            .push(msg.to_string());
    }

    pub fn set(&self, key: &str, v: impl Into<Value>) {
        self.inner
            .lock()
            .unwrap()
            .coverage
            .insert(key.to_string(), v.into());
    }
    pub fn add(&self, key: &str, n: u64) {
        let mut g = self.inner.lock().unwrap();
        let cur = g.coverage.get(key).and_then(|v| v.as_u64()).unwrap_or(0);
        g.coverage.insert(key.to_string(), json!(cur + n));
    }
    pub fn sample(&self, v: Value) {
        let mut g = self.inner.lock().unwrap();
        if g.samples.len() < 6 {
            g.samples.push(v);
        }
    }
    pub fn assume(&self, s: &str) {
        self.inner.lock().unwrap().assumptions.push(s.to_string());
    }
    pub fn note(&self, s: &str) {
        println!("note: {}", s);
        self.inner.lock().unwrap().notes.push(s.to_string());
    }
    pub fn violation_count(&self) -> usize {
        self.inner.lock().unwrap().violations.len()
    }

    /// Write the evidence file, print KNOWN-FINDING lines, return the process exit code.
    pub fn finish(&self) -> i32 {
        let wall = self.start.elapsed().as_secs_f64();
        let mut g = self.inner.lock().unwrap();
        let mut cov = std::mem::take(&mut g.coverage);
        for k in ["states", "transitions", "evaluations", "distinct_nontrivial"] {
            cov.entry(k.to_string()).or_insert(json!(0));
        }
        cov.entry("traces_validated_against_impl".to_string())
            .or_insert(json!(0));
        cov.entry("rule".to_string()).or_insert(json!(""));
        cov.insert("samples".into(), Value::Array(std::mem::take(&mut g.samples)));
        cov.insert(
            "known_findings_reobserved".into(),
            json!(g.known_seen.iter().map(|(k, v)| json!({"fingerprint": k, "count": v})).collect::<Vec<_>>()),
        );
        cov.insert(
            "unlisted_violation_fingerprints".into(),
            json!(g.violations.iter().map(|(k, v)| json!({"fingerprint": k, "count": v.0, "replay": v.1})).collect::<Vec<_>>()),
        );
        if !g.notes.is_empty() {
            cov.insert("notes".into(), json!(g.notes));
        }
        if !g.machinery_errors.is_empty() {
            cov.insert("machinery_errors".into(), json!(g.machinery_errors));
            cov.insert("exhaustive".into(), json!(false));
        }
        let ev = json!({
            "property_id": self.id,
            "tier": self.tier,
            "seed": self.seed,
            "level": "model_checking",
            "coverage": Value::Object(cov),
            "assumptions": g.assumptions,
            "wall_s": wall,
            "violations": g.violations.len(),
        });
        let dir = format!("{}/evidence", VERIF_DIR);
        let _ = std::fs::create_dir_all(&dir);
        std::fs::write(
            format!("{}/{}.json", dir, self.id),
            serde_json::to_string_pretty(&ev).unwrap(),
        )
        .expect("write evidence");
        for k in &self.known {
            if let Some(n) = g.known_seen.get(&k.fingerprint) {
                println!(
                    "KNOWN-FINDING: property={} {} [fingerprint {}; {} occurrence(s) in this run]",
                    self.id, k.what, k.fingerprint, n
                );
            }
        }
        println!(
            "{} {}: wall {:.1}s, unlisted violations: {}, known findings re-observed: {}",
            self.id,
            self.tier,
            wall,
            g.violations.len(),
            g.known_seen.len()
        );
        if !g.machinery_errors.is_empty() {
            return 2;
        }
        if g.violations.is_empty() {
            0
        } else {
            1
        }
    }
}

/// Deterministic parallel map over a case list: cases are processed in fixed-size batches, each
/// batch on a *fresh* OS thread (fresh hash keys, see `seed`), so the result of a case does not
/// depend on which worker ran it or what ran before it on that worker... up to the position
/// inside its batch, which is fixed.
// ------------------------------------------------------------------ stall watchdog
// A subject operation that never returns (an endless loop in the code under test) must end the
// check with a verdict instead of stalling it: every completed unit of work ticks a counter; when
// nothing completes for the limit, the watchdog reports and exits 1.

static PROGRESS: std::sync::atomic::AtomicU64 = std::sync::atomic::AtomicU64::new(0);
static CURRENT: Mutex<Vec<(std::thread::ThreadId, String)>> = Mutex::new(Vec::new());

pub fn tick() {
    PROGRESS.fetch_add(1, std::sync::atomic::Ordering::Relaxed);
}

/// What the calling worker is about to do (shown if it never finishes).
pub fn now_doing(what: String) {
    let id = std::thread::current().id();
    let mut g = CURRENT.lock().unwrap_or_else(|e| e.into_inner());
    if let Some(e) = g.iter_mut().find(|e| e.0 == id) {
        e.1 = what;
    } else {
        g.push((id, what));
    }
}

pub fn start_stall_watchdog(rep: &'static Report) {
    let limit = std::time::Duration::from_secs(std::env::var("VERIF_STALL_SECS").ok().and_then(|s| s.parse().ok()).unwrap_or(240));
    std::thread::spawn(move || {
        let mut last = PROGRESS.load(std::sync::atomic::Ordering::Relaxed);
        let mut since = std::time::Instant::now();
        loop {
            std::thread::sleep(std::time::Duration::from_secs(2));
            let now = PROGRESS.load(std::sync::atomic::Ordering::Relaxed);
            if now != last {
                last = now;
                since = std::time::Instant::now();
            } else if since.elapsed() > limit {
                let doing: Vec<String> = CURRENT.lock().unwrap_or_else(|e| e.into_inner()).iter().map(|e| e.1.clone()).collect();
                rep.violation(
                    "an operation on the subject did not return (no unit of work completed within the stall limit)",
                    &format!("nothing completed for {} s; workers were busy with: {:?}", limit.as_secs(), doing),
                    || json!({"stalled": true, "workers": doing}),
                );
                rep.set("exhaustive", false);
                std::process::exit(rep.finish().max(1));
            }
        }
    });
}

pub fn par_batches<T: Sync, F: Fn(usize, &T) + Sync>(cases: &[T], batch: usize, f: F) {
    use std::sync::atomic::{AtomicUsize, Ordering};
    let next = AtomicUsize::new(0);
    let nb = cases.len().div_ceil(batch.max(1));
    let workers = std::thread::available_parallelism().map_or(4, |n| n.get());
    std::thread::scope(|s| {
        for _ in 0..workers {
            s.spawn(|| loop {
                let b = next.fetch_add(1, Ordering::SeqCst);
                if b >= nb {
                    return;
                }
                let lo = b * batch;
                let hi = (lo + batch).min(cases.len());
                crate::seed::on_fresh_thread(|| {
                    for i in lo..hi {
                        now_doing(format!("case #{} of {} ({})", i, cases.len(), std::any::type_name::<T>()));
                        f(i, &cases[i]);
                        tick();
                    }
                });
            });
        }
    });
}
