//! Enumerator of shadowing layouts (shared by C01, C04, C05, C08, C20).
//!
//! A layout is a directory chain ws/, ws/a/, ws/a/b/ (depth 1..3) with the *using file* at the
//! deepest level.  For every ancestor level the conftest is one of eight provider kinds (the eighth imports a same-named plain object); the
//! using file defines the name 0, 1 or 2 times; five distractors (definitions that must never be
//! returned) are switched on or off independently.

use crate::ws::{FileSpec, Item, Scope, Ws};
use serde::{Deserialize, Serialize};

#[derive(Clone, Copy, Debug, PartialEq, Eq, Hash, Serialize, Deserialize, PartialOrd, Ord)]
pub enum Conf {
    Absent,
    Empty,
    Defines,
    Overrides,
    Star,
    Explicit,
    Plugins,
    /// `from h import fx` where `fx` in h is a plain object, not a fixture: provides nothing
    ExplicitPlain,
}
pub const CONF_ALL: [Conf; 8] = [
    Conf::Absent,
    Conf::Empty,
    Conf::Defines,
    Conf::Overrides,
    Conf::Star,
    Conf::Explicit,
    Conf::Plugins,
    Conf::ExplicitPlain,
];

#[derive(Clone, Debug, PartialEq, Eq, Hash, Serialize, Deserialize)]
pub struct Layout {
    /// conftest kind per level, index 0 = workspace root, last = the using file's directory
    pub levels: Vec<Conf>,
    /// number of definitions of `fx` in the using file
    pub own_defs: usize,
    /// distractors: sibling-dir conftest, other test module in the same dir, helper nobody
    /// imports, workspace plugin file, site-packages file
    pub distractors: [bool; 5],
    /// give definitions return types / docstrings / yields (C05) — does not affect lookup
    pub rich: bool,
}

pub const DIRS: [&str; 3] = ["", "a/", "a/b/"];

fn fx(rich: bool, tag: &str, deps: &[&str]) -> Item {
    let mut f = Item::fixture("fx", deps);
    if rich {
        if let Item::Fixture {
            ret, yields, doc, ..
        } = &mut f
        {
            *ret = Some(format!("T_{}", tag));
            *yields = tag.len() % 2 == 0;
            *doc = Some(format!("doc of {}", tag));
        }
    }
    f
}

impl Layout {
    pub fn depth(&self) -> usize {
        self.levels.len()
    }
    pub fn using_rel(&self) -> String {
        format!("{}test_u.py", DIRS[self.depth() - 1])
    }

    pub fn to_ws(&self) -> Ws {
        let d = self.depth();
        let mut files: Vec<FileSpec> = Vec::new();
        for (k, c) in self.levels.iter().enumerate() {
            let dir = DIRS[k];
            let helper = format!("h{}", k);
            let tag = format!("c{}", k);
            let conf = |items: Vec<Item>| FileSpec::new(&format!("{}conftest.py", dir), items);
            match c {
                Conf::Absent => {}
                Conf::Empty => files.push(conf(vec![Item::fixture(&format!("other{}", k), &[])])),
                Conf::Defines => files.push(conf(vec![fx(self.rich, &tag, &[])])),
                Conf::Overrides => files.push(conf(vec![fx(self.rich, &tag, &["fx"])])),
                Conf::Star => {
                    // the conftest also requests the name it imports (resolution from inside a conftest
                    // through that conftest's own imports)
                    files.push(conf(vec![
                        Item::StarImport {
                            module: helper.clone(),
                        },
                        Item::fixture(&format!("cu{}", k), &["fx"]),
                    ]));
                    files.push(FileSpec::new(
                        &format!("{}{}.py", dir, helper),
                        vec![fx(self.rich, &format!("hs{}", k), &[])],
                    ));
                }
                Conf::Explicit => {
                    files.push(conf(vec![
                        Item::ExplicitImport {
                            module: helper.clone(),
                            names: vec!["fx".into()],
                        },
                        Item::fixture(&format!("cu{}", k), &["fx"]),
                    ]));
                    files.push(FileSpec::new(
                        &format!("{}{}.py", dir, helper),
                        vec![fx(self.rich, &format!("he{}", k), &[])],
                    ));
                }
                Conf::ExplicitPlain => {
                    files.push(conf(vec![Item::ExplicitImport {
                        module: helper.clone(),
                        names: vec!["fx".into()],
                    }]));
                    files.push(FileSpec::new(
                        &format!("{}{}.py", dir, helper),
                        vec![Item::Raw("fx = object()".into())],
                    ));
                }
                Conf::Plugins => {
                    files.push(conf(vec![
                        Item::PytestPlugins {
                            modules: vec![helper.clone()],
                        },
                        Item::fixture(&format!("cu{}", k), &["fx"]),
                    ]));
                    files.push(FileSpec::new(
                        &format!("{}{}.py", dir, helper),
                        vec![fx(self.rich, &format!("hp{}", k), &[])],
                    ));
                }
            }
        }
        // the using file: every usage kind
        let mut items: Vec<Item> = Vec::new();
        if self.own_defs >= 1 {
            items.push(fx(self.rich, "own1", &[]));
        }
        items.push(Item::Pytestmark {
            names: vec!["fx".into()],
        });
        items.push(Item::test("p", &["fx"]));
        items.push(Item::fixture("gx", &["fx"]));
        items.push(Item::Test {
            name: "u".into(),
            params: vec![],
            usefixtures: vec!["fx".into()],
            indirect: vec![], indirect_above: false,
        });
        items.push(Item::Class {
            name: "C".into(),
            usefixtures: vec!["fx".into()],
            params: vec!["fx".into()],
        });
        items.push(Item::Test {
            name: "i".into(),
            params: vec!["fx".into()],
            usefixtures: vec![],
            indirect: vec!["fx".into()], indirect_above: false,
        });
        // both kinds of mark on one function, in either stacking order
        for (n, above) in [("ui", false), ("iu", true)] {
            items.push(Item::Test {
                name: n.into(),
                params: vec!["fx".into()],
                usefixtures: vec!["fx".into()],
                indirect: vec!["fx".into()],
                indirect_above: above,
            });
        }
        if self.own_defs >= 2 {
            items.push(fx(self.rich, "own2", &[]));
        }
        files.push(FileSpec::new(&self.using_rel(), items));
        // distractors
        let udir = DIRS[d - 1];
        if self.distractors[0] {
            // a directory that is not an ancestor of the using file
            let sib = if d == 1 { "zsib/" } else if d == 2 { "zsib/" } else { "a/zsib/" };
            files.push(FileSpec::new(
                &format!("{}conftest.py", sib),
                vec![fx(self.rich, "sib", &[])],
            ));
        }
        if self.distractors[1] {
            files.push(FileSpec::new(
                &format!("{}test_other.py", udir),
                vec![fx(self.rich, "othermod", &[]), Item::test("o", &["fx"])],
            ));
        }
        if self.distractors[2] {
            files.push(FileSpec::new(
                &format!("{}unused_helper.py", udir),
                vec![fx(self.rich, "unused", &[])],
            ));
        }
        if self.distractors[3] {
            let mut f = FileSpec::new("plug/myplugin.py", vec![fx(self.rich, "plugin", &[])]);
            f.plugin = true;
            files.push(f);
        }
        if self.distractors[4] {
            files.push(FileSpec::new(
                ".venv/lib/python3.11/site-packages/tp/plugin.py",
                vec![Item::scoped("fx", &[], Scope::Function)],
            ));
        }
        Ws { files }
    }

    /// Enumerate every layout with depth in `1..=max_depth`.
    pub fn enumerate(max_depth: usize, rich: bool) -> Vec<Layout> {
        let mut out = Vec::new();
        for d in 1..=max_depth {
            let mut idx = vec![0usize; d];
            loop {
                let levels: Vec<Conf> = idx.iter().map(|&i| CONF_ALL[i]).collect();
                for own in 0..=2 {
                    for m in 0..32u32 {
                        let mut dis = [false; 5];
                        for (b, x) in dis.iter_mut().enumerate() {
                            *x = m & (1 << b) != 0;
                        }
                        out.push(Layout {
                            levels: levels.clone(),
                            own_defs: own,
                            distractors: dis,
                            rich,
                        });
                    }
                }
                // next
                let mut k = 0;
                loop {
                    if k == d {
                        break;
                    }
                    idx[k] += 1;
                    if idx[k] < CONF_ALL.len() {
                        break;
                    }
                    idx[k] = 0;
                    k += 1;
                }
                if k == d {
                    break;
                }
            }
        }
        out
    }
}

/// Classification of a definition relative to the using file (fingerprints / diagnostics).
pub fn classify(ws: &Ws, using: usize, d: crate::ws::DefId) -> String {
    let f = &ws.files[d.file];
    if d.file == using {
        return "same-file".into();
    }
    if f.is_third_party() {
        return "third-party".into();
    }
    if f.plugin {
        return "plugin".into();
    }
    let udir = ws.files[using].dir().to_string();
    let is_ancestor = |dir: &str| dir.is_empty() || udir == dir || udir.starts_with(&format!("{}/", dir));
    let level_dist = |dir: &str| {
        let a = if udir.is_empty() { 0 } else { udir.split('/').count() };
        let b = if dir.is_empty() { 0 } else { dir.split('/').count() };
        a - b
    };
    if f.is_conftest() {
        if is_ancestor(f.dir()) {
            return format!("conftest-own@{}", level_dist(f.dir()));
        }
        return "sibling-conftest".into();
    }
    // a module: imported by an ancestor conftest?
    for (ci, c) in ws.files.iter().enumerate() {
        if c.is_conftest() && is_ancestor(c.dir()) {
            for it in &c.items {
                let m = match it {
                    Item::StarImport { module } => Some(module),
                    Item::ExplicitImport { module, .. } => Some(module),
                    Item::PytestPlugins { modules } => modules.first(),
                    _ => None,
                };
                if let Some(m) = m {
                    if ws.resolve_module(ci, m) == Some(d.file) {
                        return format!("conftest-import@{}", level_dist(c.dir()));
                    }
                }
            }
        }
    }
    if f.rel.contains("unused_helper") {
        return "unimported-helper".into();
    }
    if f.rel.rsplit('/').next().is_some_and(|n| n.starts_with("test_")) {
        return "other-module".into();
    }
    "unreachable-helper".into()
}
