//! Abstract workspaces, their rendering to Python text, and the reference model of pytest's
//! fixture lookup (`PytestLookup`).  The model only ever sees the abstract description; the
//! implementation only ever sees the rendered text.

use serde::{Deserialize, Serialize};
use std::collections::BTreeMap;

pub const ROOT: &str = "/nonexistent/ws";

#[derive(Clone, Copy, Debug, PartialEq, Eq, Hash, PartialOrd, Ord, Serialize, Deserialize)]
pub enum Scope {
    Function,
    Class,
    Module,
    Package,
    Session,
}
impl Scope {
    pub const ALL: [Scope; 5] = [
        Scope::Function,
        Scope::Class,
        Scope::Module,
        Scope::Package,
        Scope::Session,
    ];
    pub fn as_str(&self) -> &'static str {
        match self {
            Scope::Function => "function",
            Scope::Class => "class",
            Scope::Module => "module",
            Scope::Package => "package",
            Scope::Session => "session",
        }
    }
}

#[derive(Clone, Debug, PartialEq, Eq, Hash, Serialize, Deserialize)]
pub enum Item {
    Fixture {
        name: String,
        deps: Vec<String>,
        scope: Scope,
        autouse: bool,
        ret: Option<String>,
        yields: bool,
        doc: Option<String>,
        /// signature wrapped: `def name(` / one parameter per line / `):`
        #[serde(default)]
        wrapped: bool,
        /// whole function on one line: `def name(params): return 1`
        #[serde(default)]
        oneline: bool,
        /// declared as `@pytest.fixture(name="<name>")` on a function called `<name>_impl`
        #[serde(default)]
        alias: bool,
    },
    /// `def test_<name>(params)` optionally decorated with usefixtures / indirect parametrize
    Test {
        name: String,
        params: Vec<String>,
        usefixtures: Vec<String>,
        indirect: Vec<String>,
        /// the parametrize marks are written above the usefixtures mark (default: below it)
        #[serde(default)]
        indirect_above: bool,
    },
    /// `@pytest.mark.usefixtures(names) class Test<name>: def test_m(self, params)`
    Class {
        name: String,
        usefixtures: Vec<String>,
        params: Vec<String>,
    },
    Pytestmark {
        names: Vec<String>,
    },
    StarImport {
        module: String,
    },
    ExplicitImport {
        module: String,
        names: Vec<String>,
    },
    PytestPlugins {
        modules: Vec<String>,
    },
    /// verbatim text (no fixtures, no usages)
    Raw(String),
}

impl Item {
    pub fn fixture(name: &str, deps: &[&str]) -> Item {
        Item::Fixture {
            name: name.into(),
            deps: deps.iter().map(|s| s.to_string()).collect(),
            scope: Scope::Function,
            autouse: false,
            ret: None,
            yields: false,
            doc: None,
            wrapped: false,
            oneline: false,
            alias: false,
        }
    }
    pub fn scoped(name: &str, deps: &[&str], scope: Scope) -> Item {
        let mut f = Item::fixture(name, deps);
        if let Item::Fixture { scope: s, .. } = &mut f {
            *s = scope;
        }
        f
    }
    pub fn test(name: &str, params: &[&str]) -> Item {
        Item::Test {
            name: name.into(),
            params: params.iter().map(|s| s.to_string()).collect(),
            usefixtures: vec![],
            indirect: vec![],
            indirect_above: false,
        }
    }
}

#[derive(Clone, Debug, PartialEq, Eq, Hash, Serialize, Deserialize)]
pub struct FileSpec {
    /// path relative to the workspace root, e.g. "a/conftest.py"
    pub rel: String,
    pub items: Vec<Item>,
    /// registered in `plugin_fixture_files` before analysis (pytest11 entry-point module)
    pub plugin: bool,
    /// every `from … import …` of the file is written inside `try: … except ImportError: pass`
    #[serde(default)]
    pub guarded_imports: bool,
}

impl FileSpec {
    pub fn new(rel: &str, items: Vec<Item>) -> Self {
        FileSpec {
            rel: rel.into(),
            items,
            plugin: false,
            guarded_imports: false,
        }
    }
    pub fn is_conftest(&self) -> bool {
        self.rel == "conftest.py" || self.rel.ends_with("/conftest.py")
    }
    pub fn is_third_party(&self) -> bool {
        self.rel.contains("site-packages")
    }
    pub fn dir(&self) -> &str {
        match self.rel.rfind('/') {
            Some(i) => &self.rel[..i],
            None => "",
        }
    }
    pub fn defines(&self, name: &str) -> bool {
        self.items
            .iter()
            .any(|i| matches!(i, Item::Fixture { name: n, .. } if n == name))
    }
}

#[derive(Clone, Debug, PartialEq, Eq, Hash, Serialize, Deserialize)]
pub struct Ws {
    pub files: Vec<FileSpec>,
}

/// Identity of a definition in the abstract workspace.
#[derive(Clone, Copy, Debug, PartialEq, Eq, Hash, PartialOrd, Ord, Serialize, Deserialize)]
pub struct DefId {
    pub file: usize,
    pub item: usize,
}

#[derive(Clone, Copy, Debug, PartialEq, Eq, Hash, Serialize, PartialOrd, Ord)]
pub enum UsageKind {
    TestParam,
    FixtureParam,
    Usefixtures,
    ClassUsefixtures,
    Pytestmark,
    Indirect,
}

#[derive(Clone, Debug, Serialize)]
pub struct UsageSite {
    pub file: usize,
    pub item: usize,
    pub kind: UsageKind,
    pub name: String,
    /// 1-based line, 0-based columns [start, end)
    pub line: usize,
    pub start: usize,
    pub end: usize,
}

#[derive(Clone, Debug, Serialize)]
pub struct DefSite {
    pub id: DefId,
    pub name: String,
    /// 1-based `def` line
    pub line: usize,
    pub start: usize,
    pub end: usize,
    pub end_line: usize,
    pub yield_line: Option<usize>,
}

#[derive(Clone, Debug, Default)]
pub struct Rendered {
    /// text per file (same order as `Ws::files`)
    pub texts: Vec<String>,
    pub defs: Vec<DefSite>,
    pub usages: Vec<UsageSite>,
}

impl Ws {
    pub fn path(&self, file: usize) -> std::path::PathBuf {
        std::path::PathBuf::from(format!("{}/{}", ROOT, self.files[file].rel))
    }
    pub fn path_in(&self, root: &str, file: usize) -> std::path::PathBuf {
        std::path::PathBuf::from(format!("{}/{}", root, self.files[file].rel))
    }
    pub fn file_index(&self, rel: &str) -> Option<usize> {
        self.files.iter().position(|f| f.rel == rel)
    }

    pub fn render(&self) -> Rendered {
        let mut r = Rendered::default();
        for (fi, f) in self.files.iter().enumerate() {
            let mut out = String::new();
            let mut line = 1usize; // next line number to be written
            let mut push = |out: &mut String, s: &str, line: &mut usize| {
                out.push_str(s);
                out.push('\n');
                *line += 1;
            };
            push(&mut out, "import pytest", &mut line);
            push(&mut out, "", &mut line);
            for (ii, it) in f.items.iter().enumerate() {
                match it {
                    Item::Raw(s) => {
                        for l in s.lines() {
                            push(&mut out, l, &mut line);
                        }
                    }
                    Item::StarImport { module } if f.guarded_imports => {
                        for l in ["try:".to_string(), format!("    from {} import *", module), "except ImportError:".to_string(), "    pass".to_string()] {
                            push(&mut out, &l, &mut line);
                        }
                    }
                    Item::ExplicitImport { module, names } if f.guarded_imports => {
                        for l in ["try:".to_string(), format!("    from {} import {}", module, names.join(", ")), "except ImportError:".to_string(), "    pass".to_string()] {
                            push(&mut out, &l, &mut line);
                        }
                    }
                    Item::StarImport { module } => {
                        push(&mut out, &format!("from {} import *", module), &mut line);
                    }
                    Item::ExplicitImport { module, names } => {
                        push(
                            &mut out,
                            &format!("from {} import {}", module, names.join(", ")),
                            &mut line,
                        );
                    }
                    Item::PytestPlugins { modules } => {
                        let l: Vec<String> = modules.iter().map(|m| format!("\"{}\"", m)).collect();
                        push(
                            &mut out,
                            &format!("pytest_plugins = [{}]", l.join(", ")),
                            &mut line,
                        );
                    }
                    Item::Pytestmark { names } => {
                        let mut s = String::from("pytestmark = pytest.mark.usefixtures(");
                        for (k, n) in names.iter().enumerate() {
                            if k > 0 {
                                s.push_str(", ");
                            }
                            let start = s.len() + 1;
                            s.push_str(&format!("\"{}\"", n));
                            r.usages.push(UsageSite {
                                file: fi,
                                item: ii,
                                kind: UsageKind::Pytestmark,
                                name: n.clone(),
                                line,
                                start,
                                end: start + n.len(),
                            });
                        }
                        s.push(')');
                        push(&mut out, &s, &mut line);
                    }
                    Item::Fixture {
                        name,
                        deps,
                        scope,
                        autouse,
                        ret,
                        yields,
                        doc,
                        wrapped,
                        oneline,
                        alias,
                    } => {
                        push(&mut out, "", &mut line);
                        let mut args = Vec::new();
                        if *alias {
                            args.push(format!("name=\"{}\"", name));
                        }
                        if *scope != Scope::Function {
                            args.push(format!("scope=\"{}\"", scope.as_str()));
                        }
                        if *autouse {
                            args.push("autouse=True".to_string());
                        }
                        if args.is_empty() {
                            push(&mut out, "@pytest.fixture", &mut line);
                        } else {
                            push(
                                &mut out,
                                &format!("@pytest.fixture({})", args.join(", ")),
                                &mut line,
                            );
                        }
                        let def_line = line;
                        let func_name = if *alias { format!("{}_impl", name) } else { name.clone() };
                        let mut s = format!("def {}(", func_name);
                        let wrap = *wrapped && !deps.is_empty();
                        if wrap {
                            push(&mut out, &s, &mut line);
                            for d in deps.iter() {
                                r.usages.push(UsageSite {
                                    file: fi,
                                    item: ii,
                                    kind: UsageKind::FixtureParam,
                                    name: d.clone(),
                                    line,
                                    start: 4,
                                    end: 4 + d.len(),
                                });
                                push(&mut out, &format!("    {},", d), &mut line);
                            }
                            s = String::new();
                        }
                        for (k, d) in deps.iter().enumerate().filter(|_| !wrap) {
                            if k > 0 {
                                s.push_str(", ");
                            }
                            let start = s.len();
                            s.push_str(d);
                            r.usages.push(UsageSite {
                                file: fi,
                                item: ii,
                                kind: UsageKind::FixtureParam,
                                name: d.clone(),
                                line: def_line,
                                start,
                                end: start + d.len(),
                            });
                        }
                        s.push(')');
                        if let Some(t) = ret {
                            if *yields {
                                s.push_str(&format!(" -> Generator[{}, None, None]", t));
                            } else {
                                s.push_str(&format!(" -> {}", t));
                            }
                        }
                        s.push(':');
                        if *oneline && !wrap {
                            s.push_str(" return 1");
                            push(&mut out, &s, &mut line);
                            r.defs.push(DefSite {
                                id: DefId { file: fi, item: ii },
                                name: name.clone(),
                                line: def_line,
                                start: 4,
                                end: 4 + func_name.len(),
                                end_line: def_line,
                                yield_line: None,
                            });
                            push(&mut out, "", &mut line);
                            continue;
                        }
                        push(&mut out, &s, &mut line);
                        if let Some(d) = doc {
                            push(&mut out, &format!("    \"\"\"{}\"\"\"", d), &mut line);
                        }
                        let mut yield_line = None;
                        if *yields {
                            yield_line = Some(line);
                            push(&mut out, "    yield 1", &mut line);
                        } else {
                            push(&mut out, "    return 1", &mut line);
                        }
                        r.defs.push(DefSite {
                            id: DefId { file: fi, item: ii },
                            name: name.clone(),
                            line: def_line,
                            start: 4,
                            end: 4 + func_name.len(),
                            end_line: line - 1,
                            yield_line,
                        });
                        push(&mut out, "", &mut line);
                    }
                    Item::Test {
                        name,
                        params,
                        usefixtures,
                        indirect,
                        indirect_above,
                    } => {
                        push(&mut out, "", &mut line);
                        for pass in 0..2 {
                        if (pass == 0) != *indirect_above {
                        if !usefixtures.is_empty() {
                            let mut s = String::from("@pytest.mark.usefixtures(");
                            for (k, n) in usefixtures.iter().enumerate() {
                                if k > 0 {
                                    s.push_str(", ");
                                }
                                let start = s.len() + 1;
                                s.push_str(&format!("\"{}\"", n));
                                r.usages.push(UsageSite {
                                    file: fi,
                                    item: ii,
                                    kind: UsageKind::Usefixtures,
                                    name: n.clone(),
                                    line,
                                    start,
                                    end: start + n.len(),
                                });
                            }
                            s.push(')');
                            push(&mut out, &s, &mut line);
                        }
                        } else {
                        for n in indirect {
                            // @pytest.mark.parametrize("n", [1], indirect=["n"])
                            let mut s = format!("@pytest.mark.parametrize(\"{}\", [1], indirect=[", n);
                            let start = s.len() + 1;
                            s.push_str(&format!("\"{}\"])", n));
                            r.usages.push(UsageSite {
                                file: fi,
                                item: ii,
                                kind: UsageKind::Indirect,
                                name: n.clone(),
                                line,
                                start,
                                end: start + n.len(),
                            });
                            push(&mut out, &s, &mut line);
                        }
                        }
                        }
                        let mut s = format!("def test_{}(", name);
                        for (k, d) in params.iter().enumerate() {
                            if k > 0 {
                                s.push_str(", ");
                            }
                            let start = s.len();
                            s.push_str(d);
                            r.usages.push(UsageSite {
                                file: fi,
                                item: ii,
                                kind: UsageKind::TestParam,
                                name: d.clone(),
                                line,
                                start,
                                end: start + d.len(),
                            });
                        }
                        s.push_str("):");
                        push(&mut out, &s, &mut line);
                        push(&mut out, "    pass", &mut line);
                        push(&mut out, "", &mut line);
                    }
                    Item::Class {
                        name,
                        usefixtures,
                        params,
                    } => {
                        push(&mut out, "", &mut line);
                        if !usefixtures.is_empty() {
                            let mut s = String::from("@pytest.mark.usefixtures(");
                            for (k, n) in usefixtures.iter().enumerate() {
                                if k > 0 {
                                    s.push_str(", ");
                                }
                                let start = s.len() + 1;
                                s.push_str(&format!("\"{}\"", n));
                                r.usages.push(UsageSite {
                                    file: fi,
                                    item: ii,
                                    kind: UsageKind::ClassUsefixtures,
                                    name: n.clone(),
                                    line,
                                    start,
                                    end: start + n.len(),
                                });
                            }
                            s.push(')');
                            push(&mut out, &s, &mut line);
                        }
                        push(&mut out, &format!("class Test{}:", name), &mut line);
                        let mut s = String::from("    def test_m(self");
                        for d in params.iter() {
                            s.push_str(", ");
                            let start = s.len();
                            s.push_str(d);
                            r.usages.push(UsageSite {
                                file: fi,
                                item: ii,
                                kind: UsageKind::TestParam,
                                name: d.clone(),
                                line,
                                start,
                                end: start + d.len(),
                            });
                        }
                        s.push_str("):");
                        push(&mut out, &s, &mut line);
                        push(&mut out, "        pass", &mut line);
                        push(&mut out, "", &mut line);
                    }
                }
            }
            r.texts.push(out);
        }
        r
    }

    // ------------------------------------------------------------------ reference model

    fn own_defs(&self, file: usize, name: &str) -> Vec<DefId> {
        self.files[file]
            .items
            .iter()
            .enumerate()
            .filter(|(_, it)| matches!(it, Item::Fixture { name: n, .. } if n == name))
            .map(|(i, _)| DefId { file, item: i })
            .collect()
    }

    /// Resolve a module string as written in `file` to a file index (model of Python's import
    /// for the forms the generators emit: `.mod`, `..mod`, `mod`, `pkg.mod`).
    pub fn resolve_module(&self, file: usize, module: &str) -> Option<usize> {
        let dir = self.files[file].dir().to_string();
        let (mut base, rest): (Vec<&str>, &str) = if let Some(stripped) = module.strip_prefix('.') {
            let mut b: Vec<&str> = if dir.is_empty() {
                vec![]
            } else {
                dir.split('/').collect()
            };
            let mut rest = stripped;
            while let Some(s) = rest.strip_prefix('.') {
                rest = s;
                b.pop()?;
            }
            (b, rest)
        } else {
            // absolute: searched upward from the importing file's directory (rootdir / sys.path
            // insertion of conftest directories); nearest first
            let comps: Vec<&str> = if dir.is_empty() {
                vec![]
            } else {
                dir.split('/').collect()
            };
            let relmod = module.replace('.', "/");
            for k in (0..=comps.len()).rev() {
                let mut p = comps[..k].join("/");
                if !p.is_empty() {
                    p.push('/');
                }
                // a package takes precedence over a module of the same name in the same directory
                let cand = format!("{}{}/__init__.py", p, relmod);
                if let Some(i) = self.file_index(&cand) {
                    return Some(i);
                }
                let cand = format!("{}{}.py", p, relmod);
                if let Some(i) = self.file_index(&cand) {
                    return Some(i);
                }
            }
            return None;
        };
        if rest.is_empty() {
            let mut p = base.join("/");
            if !p.is_empty() {
                p.push('/');
            }
            return self.file_index(&format!("{}__init__.py", p));
        }
        for part in rest.split('.') {
            base.push(part);
        }
        let p = base.join("/");
        self.file_index(&format!("{}/__init__.py", p))
            .or_else(|| self.file_index(&format!("{}.py", p)))
    }

    /// The definition of `name` that `file` makes available as a *provider* (conftest / plugin
    /// module): its own (last) definition, else what its imports bring in.
    pub fn provided(
        &self,
        file: usize,
        name: &str,
        exclude: Option<DefId>,
        visited: &mut Vec<usize>,
    ) -> Option<DefId> {
        if visited.contains(&file) {
            return None;
        }
        visited.push(file);
        let own: Vec<DefId> = self
            .own_defs(file, name)
            .into_iter()
            .filter(|d| Some(*d) != exclude)
            .collect();
        if let Some(d) = own.last() {
            return Some(*d);
        }
        // import statements bind module attributes: the later statement wins. Modules named in
        // `pytest_plugins` (only the last assignment counts) are registered as plugins of their own: their
        // fixtures rank below everything the file itself binds, whatever the order of the statements; of
        // several such modules the later one wins
        let last_plugins = self.files[file].items.iter().rposition(|it| matches!(it, Item::PytestPlugins { .. }));
        let mut found = None;
        for pass in 0..2 {
        if found.is_some() {
            break;
        }
        for (idx, it) in self.files[file].items.iter().enumerate() {
            if matches!(it, Item::PytestPlugins { .. }) && (Some(idx) != last_plugins || pass == 0) {
                continue;
            }
            if !matches!(it, Item::PytestPlugins { .. }) && pass == 1 {
                continue;
            }
            match it {
                Item::StarImport { module } => {
                    if let Some(t) = self.resolve_module(file, module) {
                        if let Some(d) = self.provided(t, name, exclude, &mut visited.clone()) {
                            found = Some(d);
                        }
                    }
                }
                Item::ExplicitImport { module, names } if names.iter().any(|n| n == name) => {
                    if let Some(t) = self.resolve_module(file, module) {
                        if let Some(d) = self.provided(t, name, exclude, &mut visited.clone()) {
                            found = Some(d);
                        }
                    }
                }
                Item::PytestPlugins { modules } => {
                    for m in modules {
                        if let Some(t) = self.resolve_module(file, m) {
                            if let Some(d) = self.provided(t, name, exclude, &mut visited.clone())
                            {
                                found = Some(d);
                            }
                        }
                    }
                }
                _ => {}
            }
        }
        }
        found
    }

    /// PytestLookup: the definition pytest injects for `name` requested from `file`.
    /// `exclude` = the requesting fixture itself when it requests its own name.
    pub fn lookup(&self, file: usize, name: &str, exclude: Option<DefId>) -> Option<DefId> {
        // a plugin module is not part of the conftest hierarchy, wherever its file lies: the fixture its
        // override requests can only come from further out (third-party)
        if exclude.is_some() && self.files[file].plugin && !self.files[file].is_third_party() {
            for (fi, f) in self.files.iter().enumerate() {
                if f.is_third_party() {
                    if let Some(d) = self.own_defs(fi, name).into_iter().next_back() {
                        return Some(d);
                    }
                }
            }
            return None;
        }
        // 1. same file, last definition wins
        if let Some(d) = self
            .own_defs(file, name)
            .into_iter()
            .filter(|d| Some(*d) != exclude)
            .next_back()
        {
            return Some(d);
        }
        // 1b. a test module importing the name makes it a fixture of that module too
        if !self.files[file].is_conftest() {
            if let Some(d) = self.provided(file, name, exclude, &mut Vec::new()) {
                return Some(d);
            }
        }
        // 2. conftest.py files, nearest first
        let dir = self.files[file].dir().to_string();
        let comps: Vec<&str> = if dir.is_empty() {
            vec![]
        } else {
            dir.split('/').collect()
        };
        for k in (0..=comps.len()).rev() {
            let mut p = comps[..k].join("/");
            if !p.is_empty() {
                p.push('/');
            }
            if let Some(ci) = self.file_index(&format!("{}conftest.py", p)) {
                if let Some(d) = self.provided(ci, name, exclude, &mut Vec::new()) {
                    return Some(d);
                }
            }
        }
        // 3. workspace plugins
        for (fi, f) in self.files.iter().enumerate() {
            if f.plugin && !f.is_third_party() {
                if let Some(d) = self
                    .own_defs(fi, name)
                    .into_iter()
                    .filter(|d| Some(*d) != exclude)
                    .next_back()
                {
                    return Some(d);
                }
            }
        }
        // 4. third-party
        for (fi, f) in self.files.iter().enumerate() {
            if f.is_third_party() {
                if let Some(d) = self
                    .own_defs(fi, name)
                    .into_iter()
                    .filter(|d| Some(*d) != exclude)
                    .next_back()
                {
                    return Some(d);
                }
            }
        }
        None
    }

    /// Expected binding of a usage site.
    pub fn expected_for(&self, u: &UsageSite) -> Option<DefId> {
        let exclude = match (&self.files[u.file].items[u.item], u.kind) {
            (Item::Fixture { name, .. }, UsageKind::FixtureParam) if *name == u.name => {
                Some(DefId {
                    file: u.file,
                    item: u.item,
                })
            }
            _ => None,
        };
        self.lookup(u.file, &u.name, exclude)
    }

    /// All names visible from `file` → the definition each denotes.
    pub fn visible(&self, file: usize) -> BTreeMap<String, DefId> {
        let mut names: Vec<String> = Vec::new();
        for f in &self.files {
            for it in &f.items {
                if let Item::Fixture { name, .. } = it {
                    if !names.contains(name) {
                        names.push(name.clone());
                    }
                }
            }
        }
        let mut m = BTreeMap::new();
        for n in names {
            if let Some(d) = self.lookup(file, &n, None) {
                m.insert(n, d);
            }
        }
        m
    }

    pub fn describe_def(&self, d: DefId) -> String {
        format!("{}#{}", self.files[d.file].rel, d.item)
    }

    pub fn scope_of(&self, d: DefId) -> Scope {
        match &self.files[d.file].items[d.item] {
            Item::Fixture { scope, .. } => *scope,
            _ => Scope::Function,
        }
    }
    pub fn deps_of(&self, d: DefId) -> Vec<String> {
        match &self.files[d.file].items[d.item] {
            Item::Fixture { deps, .. } => deps.clone(),
            _ => vec![],
        }
    }
    pub fn name_of(&self, d: DefId) -> String {
        match &self.files[d.file].items[d.item] {
            Item::Fixture { name, .. } => name.clone(),
            _ => String::new(),
        }
    }
    pub fn all_defs(&self) -> Vec<DefId> {
        let mut v = Vec::new();
        for (fi, f) in self.files.iter().enumerate() {
            for (ii, it) in f.items.iter().enumerate() {
                if matches!(it, Item::Fixture { .. }) {
                    v.push(DefId { file: fi, item: ii });
                }
            }
        }
        v
    }
}
