//! E5 — the real, unmodified server binary: CLI runner, tmpfs materialisation, JSON-RPC stdio client.

use crate::ws::{Rendered, Ws};
use serde_json::{json, Value};
use std::collections::BTreeMap;
use std::io::{BufRead, BufReader, Read, Write};
use std::path::{Path, PathBuf};
use std::process::{Child, ChildStdin, Command, Stdio};
use std::sync::mpsc::{channel, Receiver, RecvTimeoutError};
use std::time::{Duration, Instant};

pub fn bin_path() -> PathBuf {
    PathBuf::from(std::env::var("VERIF_BIN").unwrap_or_else(|_| "/verif/.build/bin/release/pytest-language-server".into()))
}

/// Scratch directory on tmpfs, removed on drop.
pub struct Scratch(pub PathBuf);
impl Scratch {
    pub fn new(tag: &str) -> Scratch {
        static N: std::sync::atomic::AtomicU64 = std::sync::atomic::AtomicU64::new(0);
        let n = N.fetch_add(1, std::sync::atomic::Ordering::SeqCst);
        let p = PathBuf::from(format!("/dev/shm/verif-{}-{}-{}", std::process::id(), tag, n));
        let _ = std::fs::remove_dir_all(&p);
        std::fs::create_dir_all(&p).expect("mkdir scratch");
        Scratch(p.canonicalize().expect("canon"))
    }
    pub fn path(&self) -> &Path {
        &self.0
    }
}
impl Drop for Scratch {
    fn drop(&mut self) {
        let _ = std::fs::remove_dir_all(&self.0);
    }
}

pub fn write_file(root: &Path, rel: &str, text: &str) {
    let p = root.join(rel);
    if let Some(d) = p.parent() {
        std::fs::create_dir_all(d).expect("mkdir");
    }
    std::fs::write(&p, text).expect("write");
}

pub fn materialize(ws: &Ws, r: &Rendered, root: &Path) {
    for (i, f) in ws.files.iter().enumerate() {
        write_file(root, &f.rel, &r.texts[i]);
    }
}

pub struct CliOut {
    pub stdout: String,
    pub stderr: String,
    pub code: Option<i32>,
}

pub fn run_cli(args: &[&str], envs: &[(&str, &str)]) -> CliOut {
    let mut c = Command::new(bin_path());
    c.args(args).env("NO_COLOR", "1").env_remove("VIRTUAL_ENV").env_remove("RUST_LOG");
    for (k, v) in envs {
        c.env(k, v);
    }
    let o = c.stdin(Stdio::null()).output().expect("spawn server binary");
    CliOut {
        stdout: String::from_utf8_lossy(&o.stdout).to_string(),
        stderr: String::from_utf8_lossy(&o.stderr).to_string(),
        code: o.status.code(),
    }
}

/// Parse `fixtures list` output into (root-relative file, fixture) -> info text in parentheses.
pub fn parse_list(out: &str) -> BTreeMap<(String, String), String> {
    let mut m = BTreeMap::new();
    let mut stack: Vec<String> = Vec::new(); // directory names by depth
    let mut cur_file: Option<String> = None;
    let mut file_depth = 0usize;
    for line in out.lines().skip(1) {
        if line.trim().is_empty() || line.starts_with("No fixtures") {
            continue;
        }
        let chars: Vec<char> = line.chars().collect();
        let mut k = 0;
        while k < chars.len() && matches!(chars[k], '│' | '├' | '└' | '─' | ' ') {
            k += 1;
        }
        let depth = k / 4;
        let body: String = chars[k..].iter().collect();
        if let Some(name) = body.strip_suffix('/').or_else(|| body.strip_suffix("/ (editable install)")) {
            stack.truncate(depth);
            stack.push(name.to_string());
            cur_file = None;
            continue;
        }
        if let Some(i) = body.rfind(" (") {
            let name = &body[..i];
            let info = body[i + 2..].trim_end_matches(')').to_string();
            if info.ends_with(" fixtures") && name.ends_with(".py") {
                stack.truncate(depth);
                let mut p = stack.join("/");
                if !p.is_empty() {
                    p.push('/');
                }
                p.push_str(name);
                cur_file = Some(p);
                file_depth = depth;
                continue;
            }
            if let Some(f) = &cur_file {
                if depth > file_depth || file_depth == 0 {
                    m.insert((f.clone(), name.to_string()), info);
                }
            }
        }
    }
    m
}

pub fn count_of(info: &str) -> usize {
    if info.starts_with("unused") || info.starts_with("autouse=True") {
        return 0;
    }
    if info.starts_with("used 1 time") {
        return 1;
    }
    info.strip_prefix("used ")
        .and_then(|s| s.split(' ').next())
        .and_then(|n| n.parse().ok())
        .unwrap_or(usize::MAX)
}

// ------------------------------------------------------------------ JSON-RPC stdio client

pub struct Server {
    child: Child,
    stdin: ChildStdin,
    rx: Receiver<Value>,
    next_id: i64,
    pub notifications: Vec<Value>,
    pub deadline: Duration,
}

fn read_message<R: BufRead>(r: &mut R) -> Option<Value> {
    let mut len = 0usize;
    loop {
        let mut line = String::new();
        if r.read_line(&mut line).ok()? == 0 {
            return None;
        }
        let l = line.trim_end();
        if l.is_empty() {
            break;
        }
        if let Some(v) = l.strip_prefix("Content-Length:") {
            len = v.trim().parse().ok()?;
        }
    }
    let mut buf = vec![0u8; len];
    r.read_exact(&mut buf).ok()?;
    serde_json::from_slice(&buf).ok()
}

#[derive(Debug)]
pub enum RpcErr {
    Timeout,
    Died,
    Error(Value),
}

impl Server {
    pub fn spawn(envs: &[(&str, &str)]) -> Server {
        let mut c = Command::new(bin_path());
        c.env_remove("VIRTUAL_ENV").env("RUST_LOG", "off");
        for (k, v) in envs {
            c.env(k, v);
        }
        let mut child = c
            .stdin(Stdio::piped())
            .stdout(Stdio::piped())
            .stderr(Stdio::null())
            .spawn()
            .expect("spawn server");
        let stdin = child.stdin.take().unwrap();
        let stdout = child.stdout.take().unwrap();
        let (tx, rx) = channel();
        std::thread::spawn(move || {
            let mut r = BufReader::new(stdout);
            while let Some(m) = read_message(&mut r) {
                if tx.send(m).is_err() {
                    break;
                }
            }
        });
        Server { child, stdin, rx, next_id: 1, notifications: Vec::new(), deadline: Duration::from_secs(10) }
    }

    fn send(&mut self, v: &Value) -> bool {
        let s = serde_json::to_string(v).unwrap();
        let msg = format!("Content-Length: {}\r\n\r\n{}", s.len(), s);
        self.stdin.write_all(msg.as_bytes()).is_ok() && self.stdin.flush().is_ok()
    }

    pub fn notify(&mut self, method: &str, params: Value) -> bool {
        self.send(&json!({"jsonrpc": "2.0", "method": method, "params": params}))
    }

    /// Handle one incoming message that is not the awaited response.
    fn absorb(&mut self, m: Value) {
        if m.get("method").is_some() && m.get("id").is_some() {
            // server -> client request: answer with null
            let id = m["id"].clone();
            let _ = self.send(&json!({"jsonrpc": "2.0", "id": id, "result": null}));
        } else if m.get("method").is_some() {
            self.notifications.push(m);
        }
    }

    pub fn request(&mut self, method: &str, params: Value) -> Result<Value, RpcErr> {
        let id = self.next_id;
        self.next_id += 1;
        if !self.send(&json!({"jsonrpc": "2.0", "id": id, "method": method, "params": params})) {
            return Err(RpcErr::Died);
        }
        let end = Instant::now() + self.deadline;
        loop {
            let left = end.saturating_duration_since(Instant::now());
            match self.rx.recv_timeout(left) {
                Ok(m) => {
                    if m.get("id") == Some(&json!(id)) && m.get("method").is_none() {
                        if let Some(e) = m.get("error") {
                            return Err(RpcErr::Error(e.clone()));
                        }
                        return Ok(m.get("result").cloned().unwrap_or(Value::Null));
                    }
                    self.absorb(m);
                }
                Err(RecvTimeoutError::Timeout) => return Err(RpcErr::Timeout),
                Err(RecvTimeoutError::Disconnected) => return Err(RpcErr::Died),
            }
        }
    }

    /// Wait until a notification satisfying `pred` arrives (consumed from the buffer).
    pub fn wait_notification(&mut self, pred: &dyn Fn(&Value) -> bool) -> Result<Value, RpcErr> {
        let end = Instant::now() + self.deadline;
        loop {
            if let Some(i) = self.notifications.iter().position(pred) {
                return Ok(self.notifications.remove(i));
            }
            let left = end.saturating_duration_since(Instant::now());
            match self.rx.recv_timeout(left) {
                Ok(m) => self.absorb(m),
                Err(RecvTimeoutError::Timeout) => return Err(RpcErr::Timeout),
                Err(RecvTimeoutError::Disconnected) => return Err(RpcErr::Died),
            }
        }
    }

    pub fn initialize(&mut self, root: Option<&Path>) -> Result<Value, RpcErr> {
        let root_uri = root.map(|r| format!("file://{}", r.display()));
        let r = self.request(
            "initialize",
            json!({"processId": null, "rootUri": root_uri, "capabilities": {},
                   "workspaceFolders": root_uri.as_ref().map(|u| vec![json!({"uri": u, "name": "ws"})])}),
        )?;
        self.notify("initialized", json!({}));
        Ok(r)
    }

    pub fn wait_scan_complete(&mut self) -> Result<(), RpcErr> {
        self.wait_notification(&|m| {
            m["method"] == "window/logMessage"
                && m["params"]["message"].as_str().is_some_and(|s| s.contains("Workspace scan complete") || s.contains("Workspace scan failed"))
        })
        .map(|_| ())
    }

    pub fn did_open(&mut self, uri: &str, text: &str) -> bool {
        self.notify("textDocument/didOpen", json!({"textDocument": {"uri": uri, "languageId": "python", "version": 1, "text": text}}))
    }
    pub fn did_change(&mut self, uri: &str, version: i64, text: &str) -> bool {
        self.notify("textDocument/didChange", json!({"textDocument": {"uri": uri, "version": version}, "contentChanges": [{"text": text}]}))
    }
    /// one change notification carrying several full-document events (the last one is the document's new content)
    pub fn did_change_events(&mut self, uri: &str, version: i64, texts: &[&str]) -> bool {
        let ev: Vec<Value> = texts.iter().map(|t| json!({"text": t})).collect();
        self.notify("textDocument/didChange", json!({"textDocument": {"uri": uri, "version": version}, "contentChanges": ev}))
    }
    pub fn did_close(&mut self, uri: &str) -> bool {
        self.notify("textDocument/didClose", json!({"textDocument": {"uri": uri}}))
    }
    pub fn wait_diagnostics(&mut self, uri: &str) -> Result<Value, RpcErr> {
        let u = uri.to_string();
        self.wait_notification(&move |m| m["method"] == "textDocument/publishDiagnostics" && m["params"]["uri"] == u.as_str())
            .map(|m| m["params"]["diagnostics"].clone())
    }
    pub fn alive(&mut self) -> bool {
        matches!(self.child.try_wait(), Ok(None))
    }
    pub fn shutdown(mut self) {
        let _ = self.request("shutdown", Value::Null);
        let _ = self.notify("exit", Value::Null);
        let t = Instant::now();
        while t.elapsed() < Duration::from_millis(500) {
            if let Ok(Some(_)) = self.child.try_wait() {
                return;
            }
            std::thread::sleep(Duration::from_millis(5));
        }
        let _ = self.child.kill();
        let _ = self.child.wait();
    }
}
impl Drop for Server {
    fn drop(&mut self) {
        let _ = self.child.kill();
        let _ = self.child.wait();
    }
}

/// Materialise a workspace including the virtualenv metadata that makes the real scan discover
/// its site-packages files (pytest11 entry points) and its workspace plugin files (editable
/// install whose source lives inside the workspace).
pub fn materialize_with_venv(ws: &Ws, r: &Rendered, root: &Path) {
    materialize(ws, r, root);
    let sp = root.join(".venv/lib/python3.11/site-packages");
    let mut need_venv = false;
    for f in ws.files.iter() {
        if f.is_third_party() {
            need_venv = true;
            // .venv/lib/python3.11/site-packages/<pkg>/plugin.py
            let rest = f.rel.split("site-packages/").nth(1).unwrap_or("");
            let pkg = rest.split('/').next().unwrap_or("tp");
            let module = rest.trim_end_matches(".py").replace('/', ".");
            write_file(&sp, &format!("{}-1.0.dist-info/entry_points.txt", pkg), &format!("[pytest11]\n{} = {}\n", pkg, module));
            write_file(&sp, &format!("{}/__init__.py", pkg), "");
        } else if f.plugin {
            need_venv = true;
            // plug/<name>.py : editable install of the directory, entry point = module <name>
            let dir = root.join(f.dir());
            let name = f.rel.rsplit('/').next().unwrap_or("p.py").trim_end_matches(".py").to_string();
            write_file(&sp, &format!("{}-1.0.dist-info/entry_points.txt", name), &format!("[pytest11]\n{} = {}\n", name, name));
            write_file(&sp, &format!("{}-1.0.dist-info/direct_url.json", name), &format!("{{\"url\": \"file://{}\", \"dir_info\": {{\"editable\": true}}}}", dir.display()));
            write_file(&sp, &format!("__editable__.{}-1.0.pth", name), &format!("{}\n", dir.display()));
        }
    }
    if need_venv {
        std::fs::create_dir_all(&sp).expect("mkdir site-packages");
    }
}

pub fn seed_shim() -> String {
    "/verif/.build/harness/release/libseedshim.so".to_string()
}
