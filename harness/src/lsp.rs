//! In-process driver for the real LSP request handlers (hook H1).
//!
//! `Backend::new` needs a `tower_lsp_server::Client`, which only `LspService::new` can create, so a
//! local newtype implements `LanguageServer` and the handlers are reached through
//! `service.inner()`.  Handlers only await uncontended `tokio::sync::RwLock`s, so a no-op waker
//! `block_on` suffices.  Every call is wrapped in `catch_unwind`.

use pytest_language_server::providers::Backend;
use pytest_language_server::FixtureDatabase;
use std::future::Future;
use std::path::Path;
use std::pin::Pin;
use std::sync::Arc;
use std::task::{Context, Poll, RawWaker, RawWakerVTable, Waker};
use tower_lsp_server::jsonrpc::Result as RpcResult;
use tower_lsp_server::ls_types::*;
use tower_lsp_server::{ClientSocket, LanguageServer, LspService};

pub struct Wrapper(pub Backend);

impl LanguageServer for Wrapper {
    async fn initialize(&self, _: InitializeParams) -> RpcResult<InitializeResult> {
        Ok(InitializeResult::default())
    }
    async fn shutdown(&self) -> RpcResult<()> {
        Ok(())
    }
}

fn noop_waker() -> Waker {
    fn clone(_: *const ()) -> RawWaker {
        RawWaker::new(std::ptr::null(), &VTABLE)
    }
    fn noop(_: *const ()) {}
    static VTABLE: RawWakerVTable = RawWakerVTable::new(clone, noop, noop, noop);
    unsafe { Waker::from_raw(RawWaker::new(std::ptr::null(), &VTABLE)) }
}

/// Poll a future to completion with a no-op waker; a future that stays pending is a machinery
/// error (the handlers have nothing to wait for in-process).
pub fn block_on<F: Future>(f: F) -> F::Output {
    let mut f = Box::pin(f);
    let w = noop_waker();
    let mut cx = Context::from_waker(&w);
    for _ in 0..1_000_000 {
        if let Poll::Ready(v) = Pin::as_mut(&mut f).poll(&mut cx) {
            return v;
        }
        std::thread::yield_now();
    }
    panic!("MACHINERY: in-process handler future stayed pending");
}

pub struct Lsp {
    pub service: LspService<Wrapper>,
    pub _socket: ClientSocket,
    pub db: Arc<FixtureDatabase>,
}

pub fn uri_of(p: &Path) -> Uri {
    Uri::from_file_path(p).expect("uri")
}

pub fn path_of(u: &Uri) -> std::path::PathBuf {
    u.to_file_path().expect("file uri").to_path_buf()
}

fn pos(line0: u32, col: u32) -> Position {
    Position {
        line: line0,
        character: col,
    }
}

fn tdpp(p: &Path, line0: u32, col: u32) -> TextDocumentPositionParams {
    TextDocumentPositionParams {
        text_document: TextDocumentIdentifier { uri: uri_of(p) },
        position: pos(line0, col),
    }
}

/// Result of a guarded call: Ok(value) or the panic message.
pub type Guarded<T> = Result<T, String>;

fn guard<T>(f: impl FnOnce() -> T) -> Guarded<T> {
    std::panic::catch_unwind(std::panic::AssertUnwindSafe(f)).map_err(|p| {
        p.downcast_ref::<String>()
            .cloned()
            .or_else(|| p.downcast_ref::<&str>().map(|s| s.to_string()))
            .unwrap_or_else(|| "panic".into())
    })
}

impl Lsp {
    pub fn new(db: Arc<FixtureDatabase>, workspace_root: Option<&Path>) -> Lsp {
        let db2 = db.clone();
        let (service, socket) = LspService::new(move |c| Wrapper(Backend::new(c, db2)));
        let l = Lsp {
            service,
            _socket: socket,
            db,
        };
        if let Some(r) = workspace_root {
            let b = l.backend();
            block_on(async {
                *b.workspace_root.write().await = Some(r.to_path_buf());
                *b.original_workspace_root.write().await = Some(r.to_path_buf());
            });
        }
        l
    }
    pub fn backend(&self) -> &Backend {
        &self.service.inner().0
    }

    pub fn goto_definition(&self, p: &Path, line0: u32, col: u32) -> Guarded<Option<Location>> {
        guard(|| {
            let r = block_on(self.backend().handle_goto_definition(GotoDefinitionParams {
                text_document_position_params: tdpp(p, line0, col),
                work_done_progress_params: Default::default(),
                partial_result_params: Default::default(),
            }))
            .expect("rpc ok");
            match r {
                Some(GotoDefinitionResponse::Scalar(l)) => Some(l),
                Some(_) => panic!("unexpected definition response shape"),
                None => None,
            }
        })
    }
    pub fn goto_implementation(&self, p: &Path, line0: u32, col: u32) -> Guarded<Option<Location>> {
        guard(|| {
            let r = block_on(self.backend().handle_goto_implementation(
                request::GotoImplementationParams {
                    text_document_position_params: tdpp(p, line0, col),
                    work_done_progress_params: Default::default(),
                    partial_result_params: Default::default(),
                },
            ))
            .expect("rpc ok");
            match r {
                Some(request::GotoImplementationResponse::Scalar(l)) => Some(l),
                Some(_) => panic!("unexpected implementation response shape"),
                None => None,
            }
        })
    }
    pub fn hover(&self, p: &Path, line0: u32, col: u32) -> Guarded<Option<String>> {
        guard(|| {
            let r = block_on(self.backend().handle_hover(HoverParams {
                text_document_position_params: tdpp(p, line0, col),
                work_done_progress_params: Default::default(),
            }))
            .expect("rpc ok");
            r.map(|h| match h.contents {
                HoverContents::Markup(m) => m.value,
                _ => panic!("unexpected hover shape"),
            })
        })
    }
    pub fn references(&self, p: &Path, line0: u32, col: u32) -> Guarded<Option<Vec<Location>>> {
        guard(|| {
            block_on(self.backend().handle_references(ReferenceParams {
                text_document_position: tdpp(p, line0, col),
                work_done_progress_params: Default::default(),
                partial_result_params: Default::default(),
                context: ReferenceContext {
                    include_declaration: true,
                },
            }))
            .expect("rpc ok")
        })
    }
    pub fn completion(
        &self,
        p: &Path,
        line0: u32,
        col: u32,
        trigger: Option<&str>,
    ) -> Guarded<Option<Vec<CompletionItem>>> {
        guard(|| {
            let r = block_on(self.backend().handle_completion(CompletionParams {
                text_document_position: tdpp(p, line0, col),
                work_done_progress_params: Default::default(),
                partial_result_params: Default::default(),
                context: trigger.map(|t| CompletionContext {
                    trigger_kind: CompletionTriggerKind::TRIGGER_CHARACTER,
                    trigger_character: Some(t.to_string()),
                }),
            }))
            .expect("rpc ok");
            r.map(|c| match c {
                CompletionResponse::Array(a) => a,
                CompletionResponse::List(l) => l.items,
            })
        })
    }
    pub fn code_action(
        &self,
        p: &Path,
        diags: Vec<Diagnostic>,
    ) -> Guarded<Option<Vec<CodeActionOrCommand>>> {
        guard(|| {
            let range = diags
                .first()
                .map(|d| d.range)
                .unwrap_or_default();
            block_on(self.backend().handle_code_action(CodeActionParams {
                text_document: TextDocumentIdentifier { uri: uri_of(p) },
                range,
                context: CodeActionContext {
                    diagnostics: diags,
                    only: None,
                    trigger_kind: None,
                },
                work_done_progress_params: Default::default(),
                partial_result_params: Default::default(),
            }))
            .expect("rpc ok")
        })
    }
    pub fn document_symbol(&self, p: &Path) -> Guarded<Option<Vec<DocumentSymbol>>> {
        guard(|| {
            let r = block_on(self.backend().handle_document_symbol(DocumentSymbolParams {
                text_document: TextDocumentIdentifier { uri: uri_of(p) },
                work_done_progress_params: Default::default(),
                partial_result_params: Default::default(),
            }))
            .expect("rpc ok");
            r.map(|x| match x {
                DocumentSymbolResponse::Nested(v) => v,
                _ => panic!("unexpected documentSymbol shape"),
            })
        })
    }
    pub fn workspace_symbol(&self, q: &str) -> Guarded<Option<Vec<SymbolInformation>>> {
        guard(|| {
            block_on(self.backend().handle_workspace_symbol(WorkspaceSymbolParams {
                query: q.to_string(),
                work_done_progress_params: Default::default(),
                partial_result_params: Default::default(),
            }))
            .expect("rpc ok")
        })
    }
    pub fn code_lens(&self, p: &Path) -> Guarded<Option<Vec<CodeLens>>> {
        guard(|| {
            block_on(self.backend().handle_code_lens(CodeLensParams {
                text_document: TextDocumentIdentifier { uri: uri_of(p) },
                work_done_progress_params: Default::default(),
                partial_result_params: Default::default(),
            }))
            .expect("rpc ok")
        })
    }
    pub fn inlay_hint(&self, p: &Path, range: Range) -> Guarded<Option<Vec<InlayHint>>> {
        guard(|| {
            block_on(self.backend().handle_inlay_hint(InlayHintParams {
                text_document: TextDocumentIdentifier { uri: uri_of(p) },
                range,
                work_done_progress_params: Default::default(),
            }))
            .expect("rpc ok")
        })
    }
    pub fn prepare_call_hierarchy(
        &self,
        p: &Path,
        line0: u32,
        col: u32,
    ) -> Guarded<Option<Vec<CallHierarchyItem>>> {
        guard(|| {
            block_on(
                self.backend()
                    .handle_prepare_call_hierarchy(CallHierarchyPrepareParams {
                        text_document_position_params: tdpp(p, line0, col),
                        work_done_progress_params: Default::default(),
                    }),
            )
            .expect("rpc ok")
        })
    }
    pub fn incoming_calls(
        &self,
        item: CallHierarchyItem,
    ) -> Guarded<Option<Vec<CallHierarchyIncomingCall>>> {
        guard(|| {
            block_on(
                self.backend()
                    .handle_incoming_calls(CallHierarchyIncomingCallsParams {
                        item,
                        work_done_progress_params: Default::default(),
                        partial_result_params: Default::default(),
                    }),
            )
            .expect("rpc ok")
        })
    }
    pub fn outgoing_calls(
        &self,
        item: CallHierarchyItem,
    ) -> Guarded<Option<Vec<CallHierarchyOutgoingCall>>> {
        guard(|| {
            block_on(
                self.backend()
                    .handle_outgoing_calls(CallHierarchyOutgoingCallsParams {
                        item,
                        work_done_progress_params: Default::default(),
                        partial_result_params: Default::default(),
                    }),
            )
            .expect("rpc ok")
        })
    }
}

pub fn whole_doc_range() -> Range {
    Range {
        start: pos(0, 0),
        end: pos(1_000_000, 0),
    }
}
