//! C03 — what the index records for a file is what the file says.
//! Deviation-bounded program grammar (oracle/gen_c03.py) × CPython-ast extraction (oracle/extract.py)
//! vs the real analyzer, record by record.

use crate::e4::{generate, report_findings, Finding};
use crate::lsp::Lsp;
use crate::report::{is_thorough, par_batches, Report};
use pytest_language_server::FixtureDatabase;
use serde_json::{json, Value};
use std::path::PathBuf;
use std::sync::{Arc, Mutex};

fn scope_str(s: pytest_language_server::FixtureScope) -> &'static str {
    s.as_str()
}

pub fn compare_case(ci: usize, case: &Value, out: &Mutex<Vec<Finding>>) {
    let src = case["source"].as_str().unwrap_or("");
    let exp = &case["expected"];
    let path = PathBuf::from("/nonexistent/ws/test_mod.py");
    let db = Arc::new(FixtureDatabase::new());
    let r = std::panic::catch_unwind(std::panic::AssertUnwindSafe(|| db.analyze_file(path.clone(), src)));
    let mut push = |what: String, detail: String| out.lock().unwrap().push(Finding { case_index: ci, what, detail });
    if r.is_err() {
        push("analysis panicked".into(), "analyze_file panicked".into());
        return;
    }
    if db.file_cache.contains_key(&path) && !db.imports.contains_key(&path) {
        // rustpython rejected a program CPython accepts: outside the verdict, counted by caller
        push("PARSER-DISAGREEMENT".into(), "rustpython-parser rejects a program CPython accepts".into());
        return;
    }
    // ---- fixtures
    let mut obs: Vec<pytest_language_server::FixtureDefinition> = Vec::new();
    for e in db.definitions.iter() {
        obs.extend(e.value().iter().cloned());
    }
    let expf = exp["fixtures"].as_array().cloned().unwrap_or_default();
    for ef in &expf {
        let name = ef["name"].as_str().unwrap_or("");
        let line = ef["line"].as_u64().unwrap_or(0) as usize;
        let Some(o) = obs.iter().find(|d| d.name == name && d.line == line) else {
            let near = obs.iter().find(|d| d.line == line || d.name == name);
            let cls = match near {
                Some(d) if d.line == line => "wrong-name",
                Some(_) => "wrong-line",
                None => "not-recorded",
            };
            push(format!("fixtures: {}", cls), format!("expected fixture {} at line {}, index has {:?}", name, line, obs.iter().map(|d| (d.name.clone(), d.line)).collect::<Vec<_>>()));
            continue;
        };
        let mut field = |f: &str, want: String, got: String| {
            if want != got {
                push(format!("fixtures.{}", f), format!("fixture {}: {} expected {}, recorded {}", name, f, want, got));
            }
        };
        field("scope", ef["scope"].as_str().unwrap_or("").to_string(), scope_str(o.scope).to_string());
        field("autouse", ef["autouse"].to_string(), o.autouse.to_string());
        field("dependencies", format!("{:?}", ef["deps"].as_array().unwrap().iter().map(|x| x.as_str().unwrap().to_string()).collect::<Vec<_>>()), format!("{:?}", o.dependencies));
        field("generator-status", ef["is_generator"].to_string(), o.yield_line.is_some().to_string());
        if ef["is_generator"] == true && o.yield_line.is_some() {
            field("yield_line", ef["yield_line"].to_string(), o.yield_line.unwrap().to_string());
        }
        field("end_line", ef["end_line"].to_string(), o.end_line.to_string());
        let want_ret = ef["ret"].as_str().map(|s| s.to_string());
        let alts: Vec<String> = ef["ret_alt"].as_array().map(|a| a.iter().filter_map(|x| x.as_str().map(|s| s.to_string())).collect()).unwrap_or_default();
        let norm = |s: &str| s.replace(' ', "");
        let ok = match (&want_ret, &o.return_type) {
            (None, None) => true,
            (Some(w), Some(g)) => norm(w) == norm(g) || alts.iter().any(|a| norm(a) == norm(g)),
            _ => false,
        };
        if !ok {
            push("fixtures.return_type".into(), format!("fixture {}: return type expected {:?}, recorded {:?}", name, want_ret, o.return_type));
        }
        let want_doc = ef["doc"].as_str().map(|s| s.to_string());
        // "cleaned" is judged modulo whitespace at the end of a line (invisible wherever the text is
        // shown; inspect.cleandoc keeps it, the server trims it)
        let rstrip = |d: &Option<String>| d.as_ref().map(|t| t.split('\n').map(|l| l.trim_end()).collect::<Vec<_>>().join("\n"));
        if rstrip(&want_doc) != rstrip(&o.docstring) {
            push("fixtures.docstring".into(), format!("fixture {}: docstring expected {:?}, recorded {:?}", name, want_doc, o.docstring));
        }
    }
    for o in &obs {
        if !expf.iter().any(|ef| ef["name"].as_str() == Some(&o.name) && ef["line"].as_u64() == Some(o.line as u64)) {
            if !expf.iter().any(|ef| ef["line"].as_u64() == Some(o.line as u64) || ef["name"].as_str() == Some(&o.name)) {
                push("fixtures: recorded-but-not-a-fixture".into(), format!("index records fixture {} at line {} which the file does not declare", o.name, o.line));
            }
        }
    }
    // ---- usages: multiset of (name, line), `request` not judged
    let mut want: Vec<(String, u64)> = exp["usages"].as_array().cloned().unwrap_or_default().iter().map(|u| (u["name"].as_str().unwrap_or("").to_string(), u["line"].as_u64().unwrap_or(0))).filter(|u| u.0 != "request").collect();
    let mut got: Vec<(String, u64)> = db.usages.get(&path).map(|v| v.iter().map(|u| (u.name.clone(), u.line as u64)).collect()).unwrap_or_default();
    got.retain(|u| u.0 != "request");
    want.sort();
    got.sort();
    if want != got {
        let missing: Vec<&(String, u64)> = want.iter().filter(|x| !got.contains(x)).collect();
        let extra: Vec<&(String, u64)> = got.iter().filter(|x| !want.contains(x)).collect();
        let cls = if !missing.is_empty() && !extra.is_empty() { "missing+extra" } else if !missing.is_empty() { "missing" } else if !extra.is_empty() { "extra" } else { "multiplicity" };
        push(format!("usages: {}", cls), format!("usages expected {:?}, recorded {:?}", want, got));
    }
    // ---- the same facts as they surface in documentSymbol detail
    let lsp = Lsp::new(db.clone(), None);
    if let Ok(sy) = lsp.document_symbol(&path) {
        let sy = sy.unwrap_or_default();
        for o in &obs {
            let want = o.return_type.as_ref().map(|r| format!("-> {}", r));
            let got = sy.iter().find(|s| s.name == o.name && s.range.start.line as usize + 1 == o.line).map(|s| s.detail.clone());
            if got != Some(want.clone()) {
                push("documentSymbol.detail".into(), format!("symbol for {}: detail {:?}, index return type {:?}", o.name, got, want));
            }
        }
    }
}

pub fn run(rep: &'static Report) {
    let thorough = is_thorough();
    let k = if thorough { 4 } else { 3 };
    let cases = generate("gen_c03.py", k, &[]);
    let findings: Mutex<Vec<Finding>> = Mutex::new(Vec::new());
    let rejected = cases.iter().filter(|c| c.get("cpython_rejects").is_some()).count();
    par_batches(&cases, 64, |i, c| {
        if c.get("expected").is_some() {
            compare_case(i, c, &findings);
        }
    });
    let mut f = findings.into_inner().unwrap();
    let disagreements = f.iter().filter(|x| x.what == "PARSER-DISAGREEMENT").count();
    f.retain(|x| x.what != "PARSER-DISAGREEMENT");
    let counts = report_findings(rep, &cases, f);
    let judged = cases.len() - rejected - disagreements;
    rep.set("evaluations", judged as u64);
    rep.set("programs", cases.len() as u64);
    rep.set("programs_rejected_by_cpython", rejected as u64);
    rep.set("parser_disagreements_outside_verdict", disagreements as u64);
    rep.set("states", judged as u64);
    rep.set("transitions", judged as u64);
    rep.set("distinct_nontrivial", cases.iter().filter(|c| c["dims"].as_object().is_some_and(|o| !o.is_empty())).count() as u64);
    rep.set("traces_validated_against_impl", judged as u64);
    rep.set("max_deviations", k as u64);
    rep.set("finding_counts", json!(counts));
    rep.set("exhaustive", true);
    if let Some(c) = cases.iter().find(|c| c["dims"].as_object().is_some_and(|o| o.len() == 2)) {
        rep.sample(json!({"dims": c["dims"], "source": c["source"], "expected": c["expected"]}));
    }
    rep.set("rule", "every program of the C03 grammar (12 feature dimensions: decorator spelling, name=, scope=, autouse, async, placement, parameter list, body/yield placement, return annotation, docstring layout, assignment style, usage construct) with at most max_deviations dimensions off their default; for each, the records CPython's ast yields under the documented rules (oracle/extract.py) are compared field by field with the real analyzer's index (name, def line, end line, scope, autouse, ordered dependencies, generator status, yield line, return type text, cleaned docstring; usages as a multiset of (name, line)) and with documentSymbol details; a disagreement is attributed to the minimal failing set of off-default features; non-trivial = programs with ≥1 off-default feature");
    rep.assume("CPython 3.11 ast is the reference parser; programs CPython rejects or rustpython-parser rejects are counted and excluded; `request` parameters are not judged; string forward references may be printed quoted or unquoted");
}

pub fn replay(v: &Value) {
    let findings: Mutex<Vec<Finding>> = Mutex::new(Vec::new());
    let src = v["source"].as_str().unwrap_or("").to_string();
    println!("{}", src);
    // recompute the oracle through the extractor
    let o = std::process::Command::new("python3").arg("-c").arg("import sys,json; sys.path.insert(0,'/verif/oracle'); from extract import extract; print(json.dumps(extract(sys.stdin.read())))").stdin(std::process::Stdio::piped()).stdout(std::process::Stdio::piped()).spawn().and_then(|mut c| {
        use std::io::Write;
        c.stdin.take().unwrap().write_all(src.as_bytes())?;
        c.wait_with_output()
    });
    if let Ok(o) = o {
        let exp: Value = serde_json::from_slice(&o.stdout).unwrap_or(Value::Null);
        let case = json!({"source": src, "expected": exp, "dims": v["dims"]});
        compare_case(0, &case, &findings);
        for f in findings.into_inner().unwrap() {
            println!("{}: {}", f.what, f.detail);
        }
    }
}
