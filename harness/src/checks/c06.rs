//! C06 — index state depends on current contents only, not on edit history.
//! Explicit-state BFS (stateright) over edit histories; every state carries a real
//! FixtureDatabase; the oracle runs inside `next_state` on every generated transition.

use crate::checks::wscheck::Counters;
use crate::db::{answer_snapshot, deep_clone, index_invariants, index_snapshot, permutations, IndexParts};
use crate::report::{is_thorough, Report};
use crate::ws::ROOT;
use pytest_language_server::FixtureDatabase;
use serde_json::{json, Value};
use stateright::{Checker, Model, Property};
use std::hash::{Hash, Hasher};
use std::path::PathBuf;
use std::sync::atomic::{AtomicU64, Ordering};
use std::sync::Arc;

pub struct FileVersions {
    pub rel: &'static str,
    /// (label, text, syntactically valid)
    pub versions: Vec<(&'static str, String, bool)>,
}

fn conftest_versions(tag: &str, with_import: bool) -> Vec<(&'static str, String, bool)> {
    let mut v = vec![
        ("fx", format!("import pytest\n\n@pytest.fixture\ndef fx():\n    \"\"\"{tag} fx\"\"\"\n    return 1\n"), true),
        ("fx+gx", format!("import pytest\n\n@pytest.fixture\ndef fx():\n    return 1\n\n@pytest.fixture(scope=\"session\")\ndef gx(fx):\n    return 2\n"), true),
        ("nothing", "import pytest\n\nX = 1\n".to_string(), true),
        ("renamed-hx", "import pytest\n\n@pytest.fixture\ndef hx():\n    return 1\n".to_string(), true),
        ("fx-shifted", format!("import pytest\n\n\n\n@pytest.fixture\ndef fx():\n    \"\"\"{tag} fx\"\"\"\n    return 1\n"), true),
        ("broken", "import pytest\n\n@pytest.fixture\ndef fx(:\n    return 1\n".to_string(), false),
        ("comment-only", "# everything commented out\n# import pytest\n".to_string(), true),
        ("fx-twice", format!("import pytest\n\n@pytest.fixture\ndef fx():\n    \"\"\"{tag} first\"\"\"\n    return 1\n\n@pytest.fixture\ndef fx():\n    \"\"\"{tag} second\"\"\"\n    return 2\n"), true),
    ];
    if with_import {
        v.push(("star-import-helpers", "import pytest\nfrom helpers import *\n".to_string(), true));
    }
    v
}

pub fn files(thorough: bool) -> Vec<FileVersions> {
    let mut f = vec![
        FileVersions { rel: "conftest.py", versions: conftest_versions("root", false) },
        FileVersions { rel: "a/conftest.py", versions: conftest_versions("sub", thorough) },
        FileVersions {
            rel: "a/test_m.py",
            versions: vec![
                ("uses-fx", "import pytest\n\n@pytest.fixture\ndef lx(fx):\n    return fx\n\ndef test_one(fx, lx):\n    pass\n".to_string(), true),
                ("uses-gx", "import pytest\n\ndef test_one(gx):\n    pass\n\n@pytest.mark.usefixtures(\"gx\")\ndef test_two():\n    pass\n".to_string(), true),
                ("uses-none", "import pytest\n\ndef test_one():\n    pass\n".to_string(), true),
                ("undeclared-fx", "import pytest\n\ndef test_one():\n    assert fx\n    hx.x\n".to_string(), true),
                ("uses-fx-shifted", "import pytest\n\n\n@pytest.fixture\ndef lx(fx):\n    return fx\n\ndef test_one(fx, lx):\n    pass\n".to_string(), true),
                ("broken", "import pytest\n\ndef test_one(fx:\n    pass\n".to_string(), false),
                ("empty", "".to_string(), true),
                ("lx-twice", "import pytest\n\n@pytest.fixture\ndef lx():\n    return 1\n\ndef test_one(lx, fx):\n    pass\n\n@pytest.fixture\ndef lx(fx):\n    return 2\n".to_string(), true),
            ],
        },
    ];
    if thorough {
        f.push(FileVersions {
            rel: "a/helpers.py",
            versions: vec![
                ("helper-fx", "import pytest\n\n@pytest.fixture\ndef fx():\n    \"\"\"helper fx\"\"\"\n    return 3\n".to_string(), true),
                ("helper-kx", "import pytest\n\n@pytest.fixture\ndef kx():\n    return 3\n".to_string(), true),
                ("broken", "def (\n".to_string(), false),
            ],
        });
    }
    f
}

/// Second file set: the import / pytest_plugins structure changes under the edits (the fixtures a
/// conftest provides come from other modules whose own contents change, break and recover).
pub fn import_files() -> Vec<FileVersions> {
    let fx = |doc: &str| format!("import pytest\n\n@pytest.fixture\ndef fx():\n    \"\"\"{doc}\"\"\"\n    return 1\n");
    vec![
        FileVersions {
            rel: "conftest.py",
            versions: vec![
                ("star-helpers", "import pytest\nfrom helpers import *\n".to_string(), true),
                ("explicit-fx", "import pytest\nfrom helpers import fx\n".to_string(), true),
                ("explicit-kx", "import pytest\nfrom helpers import kx\n".to_string(), true),
                ("plugins-helpers", "import pytest\n\npytest_plugins = [\"helpers\"]\n".to_string(), true),
                ("star-helpers2", "import pytest\nfrom helpers2 import *\n".to_string(), true),
                ("own-fx", fx("own"), true),
                ("star-then-own", format!("from helpers import *\n{}", fx("own after star")), true),
                ("nothing", "import pytest\n".to_string(), true),
                ("broken-star", "import pytest\nfrom helpers import *\ndef (\n".to_string(), false),
            ],
        },
        FileVersions {
            rel: "helpers.py",
            versions: vec![
                ("fx", fx("helpers"), true),
                ("kx", "import pytest\n\n@pytest.fixture\ndef kx():\n    return 2\n".to_string(), true),
                ("fx+kx", format!("{}\n@pytest.fixture(scope=\"session\")\ndef kx(fx):\n    return 2\n", fx("helpers both")), true),
                ("star-helpers2", "from helpers2 import *\n".to_string(), true),
                ("nothing", "X = 1\n".to_string(), true),
                ("broken", "import pytest\n@pytest.fixture\ndef fx(:\n".to_string(), false),
            ],
        },
        FileVersions {
            rel: "helpers2.py",
            versions: vec![
                ("fx", fx("helpers2"), true),
                ("star-helpers", "from helpers import *\n".to_string(), true),
                ("nothing", "Y = 1\n".to_string(), true),
            ],
        },
        FileVersions {
            rel: "a/test_m.py",
            versions: vec![
                ("uses-fx-kx", "def test_one(fx, kx):\n    pass\n".to_string(), true),
                ("undeclared", "def test_one():\n    fx.x\n    kx.x\n".to_string(), true),
            ],
        },
    ]
}

#[derive(Clone)]
pub struct St {
    /// per file: (current version, last valid version); None = never opened
    pub key: Vec<(Option<u8>, Option<u8>)>,
    /// per file: document closed (cached text dropped) since its last analysis
    pub closed: Vec<bool>,
    pub depth: u8,
    /// one history reaching this state (the first one found; not part of the identity)
    pub hist: Vec<(u8, u8)>,
    /// files in order of their most recent valid analysis (registration order of the live index)
    pub valid_order: Vec<u8>,
    pub db: Arc<FixtureDatabase>,
}
impl PartialEq for St {
    fn eq(&self, o: &Self) -> bool {
        self.key == o.key && self.depth == o.depth && self.closed == o.closed
    }
}
impl Eq for St {}
impl Hash for St {
    fn hash<H: Hasher>(&self, h: &mut H) {
        self.key.hash(h);
        self.closed.hash(h);
        self.depth.hash(h);
    }
}
impl std::fmt::Debug for St {
    fn fmt(&self, f: &mut std::fmt::Formatter<'_>) -> std::fmt::Result {
        write!(f, "{:?}@{}", self.key, self.depth)
    }
}

type Extra = dyn Fn(&Value, &Arc<FixtureDatabase>) + Send + Sync;

pub struct HistModel {
    pub files: Vec<FileVersions>,
    pub max_depth: u8,
    pub rep: &'static Report,
    pub transitions: AtomicU64,
    pub oracle_fresh_builds: AtomicU64,
    pub judge: bool,
    /// also explore didClose (cleanup_file_cache) actions, encoded as version 255
    pub with_close: bool,
    pub extra: Option<Box<Extra>>,
    /// history applied before the exploration starts (non-initial start state); depth counts from there
    pub init: Vec<(u8, u8)>,
}

fn path_of(rel: &str) -> PathBuf {
    PathBuf::from(format!("{}/{}", ROOT, rel))
}

impl HistModel {
    fn hist_json(&self, hist: &[(u8, u8)]) -> Value {
        json!(hist
            .iter()
            .map(|(f, v)| if *v == 255 { json!({"file": self.files[*f as usize].rel, "version": "CLOSE"}) } else { json!({"file": self.files[*f as usize].rel, "version": self.files[*f as usize].versions[*v as usize].0,
                                 "text": self.files[*f as usize].versions[*v as usize].1}) })
            .collect::<Vec<_>>())
    }

    fn fresh(&self, key: &[(Option<u8>, Option<u8>)], order: &[u8]) -> FixtureDatabase {
        let db = FixtureDatabase::new();
        for &f in order {
            if let Some(lv) = key[f as usize].1 {
                let fv = &self.files[f as usize];
                db.analyze_file(path_of(fv.rel), &fv.versions[lv as usize].1);
            }
        }
        self.oracle_fresh_builds.fetch_add(1, Ordering::Relaxed);
        db
    }

    /// The oracle for one transition; `live` is the database after the action.
    fn judge_transition(&self, s: &St) {
        let rep = self.rep;
        let key = &s.key;
        let invalid: Vec<String> = key
            .iter()
            .enumerate()
            .filter(|(_, (c, lv))| c.is_some() && c != lv)
            .map(|(i, _)| self.files[i].rel.to_string())
            .collect();
        let strip = |v: Vec<String>| -> Vec<String> {
            v.into_iter()
                .filter(|l| !(l.starts_with("CACHE ") && invalid.iter().any(|f| l.starts_with(&format!("CACHE {} ", f)))))
                .collect()
        };
        let opened_valid: Vec<u8> = s.valid_order.clone();
        // (1) order-insensitive index comparison with a fresh server
        let fresh0 = self.fresh(key, &opened_valid);
        let li = strip(index_snapshot(&s.db, ROOT, IndexParts::CORE));
        let fi = strip(index_snapshot(&fresh0, ROOT, IndexParts::CORE));
        let case = || json!({"history": self.hist_json(&s.hist)});
        if li != fi {
            let extra: Vec<&String> = li.iter().filter(|l| !fi.contains(l)).collect();
            let missing: Vec<&String> = fi.iter().filter(|l| !li.contains(l)).collect();
            let kind = |l: &String| l.split(' ').next().unwrap_or("").to_string();
            let mut kinds: Vec<String> = extra.iter().map(|l| format!("stale-{}", kind(l))).chain(missing.iter().map(|l| format!("missing-{}", kind(l)))).collect();
            kinds.sort();
            kinds.dedup();
            if kinds.is_empty() {
                kinds.push("multiplicity".into());
            }
            rep.violation(
                &format!("index differs from fresh server: {}", kinds.join(",")),
                &format!("after history {:?}: index has extra {:?}, lacks {:?}", s.hist.iter().map(|(f, v)| format!("{}:={}", self.files[*f as usize].rel, self.files[*f as usize].versions[*v as usize].0)).collect::<Vec<_>>(), extra, missing),
                || json!({"case": case(), "extra": extra, "missing": missing}),
            );
        }
        for b in index_invariants(&s.db, ROOT) {
            rep.violation(&format!("index-invariant: {}", b.split(' ').take(3).collect::<Vec<_>>().join(" ")), &b, || json!({"case": case()}));
        }
        // (2) undeclared findings of the document changed last
        if let Some(&(lf, lvn)) = s.hist.last() {
            let fv = &self.files[lf as usize];
            if fv.versions[lvn as usize].2 {
                // valid_order ends with lf in this case
                let p = path_of(fv.rel);
                let show = |db: &FixtureDatabase| {
                    let mut v: Vec<String> = db
                        .get_undeclared_fixtures(&p)
                        .iter()
                        .map(|u| format!("{}:{}:{}-{} in {}@{}", u.name, u.line, u.start_char, u.end_char, u.function_name, u.function_line))
                        .collect();
                    v.sort();
                    v
                };
                let (a, b) = (show(&s.db), show(&fresh0));
                if a != b {
                    rep.violation(
                        "undeclared findings of the last-changed document differ from fresh analysis",
                        &format!("{}: live {:?} vs fresh {:?}", fv.rel, a, b),
                        || json!({"case": case(), "live": a, "fresh": b}),
                    );
                }
            }
        }
        // (3) answers: ∃ feed order π of the fresh server with identical answers
        let valid_files: Vec<PathBuf> = key
            .iter()
            .enumerate()
            .filter(|(_, (c, lv))| c.is_some() && c == lv)
            .map(|(i, _)| path_of(self.files[i].rel))
            .collect();
        let ans = |db: &FixtureDatabase| -> Vec<String> {
            answer_snapshot(db, ROOT, &valid_files)
                .into_iter()
                .filter(|l| !(l.starts_with("GOTO ") && invalid.iter().any(|f| l.starts_with(&format!("GOTO {} ", f)))))
                .collect()
        };
        let la = ans(&s.db);
        let mut ok = ans(&fresh0) == la;
        if !ok {
            let n = opened_valid.len();
            for perm in permutations(n) {
                let ord: Vec<u8> = perm.iter().map(|&k| opened_valid[k]).collect();
                if ord == opened_valid {
                    continue;
                }
                let f = self.fresh(key, &ord);
                if ans(&f) == la {
                    ok = true;
                    break;
                }
            }
        }
        if !ok {
            let fa = ans(&fresh0);
            let diff: Vec<String> = la.iter().filter(|l| !fa.contains(l)).cloned().collect();
            let kinds: std::collections::BTreeSet<String> = diff.iter().map(|l| l.split(' ').next().unwrap_or("").to_string()).collect();
            rep.violation(
                &format!("answers differ from every fresh feed order: {:?}", kinds),
                &format!("after history {:?}: answers not reproducible by any fresh server; differing (vs analysis-time order): {:?}", s.hist, diff),
                || json!({"case": case(), "live_only": diff}),
            );
        }
    }
}

impl Model for HistModel {
    type State = St;
    type Action = (u8, u8);

    fn init_states(&self) -> Vec<St> {
        let mut st = St {
            key: vec![(None, None); self.files.len()],
            closed: vec![false; self.files.len()],
            depth: 0,
            hist: vec![],
            valid_order: vec![],
            db: Arc::new(FixtureDatabase::new()),
        };
        if !self.init.is_empty() {
            let db = crate::seed::on_fresh_thread(|| {
                let db = FixtureDatabase::new();
                for &(f, v) in &self.init {
                    let fv = &self.files[f as usize];
                    db.analyze_file(path_of(fv.rel), &fv.versions[v as usize].1);
                }
                db
            });
            for &(f, v) in &self.init {
                let valid = self.files[f as usize].versions[v as usize].2;
                st.key[f as usize].0 = Some(v);
                if valid {
                    st.key[f as usize].1 = Some(v);
                    st.valid_order.retain(|&x| x != f);
                    st.valid_order.push(f);
                }
                st.hist.push((f, v));
            }
            st.db = Arc::new(db);
        }
        vec![st]
    }
    fn actions(&self, s: &St, out: &mut Vec<(u8, u8)>) {
        if s.depth >= self.max_depth {
            return;
        }
        for (fi, f) in self.files.iter().enumerate() {
            for vi in 0..f.versions.len() {
                out.push((fi as u8, vi as u8));
            }
            if self.with_close && s.key[fi].0.is_some() && !s.closed[fi] {
                out.push((fi as u8, 255));
            }
        }
    }
    fn next_state(&self, s: &St, a: (u8, u8)) -> Option<St> {
        let (f, v) = a;
        let fv = &self.files[f as usize];
        if v == 255 {
            let db = crate::seed::on_fresh_thread(|| {
                let db = deep_clone(&s.db);
                db.cleanup_file_cache(&path_of(fv.rel));
                db
            });
            let mut closed = s.closed.clone();
            closed[f as usize] = true;
            let mut hist = s.hist.clone();
            hist.push(a);
            let ns = St { key: s.key.clone(), closed, depth: s.depth + 1, hist, valid_order: s.valid_order.clone(), db: Arc::new(db) };
            self.transitions.fetch_add(1, Ordering::Relaxed);
            if let Some(x) = &self.extra {
                let invalid: Vec<&str> = ns.key.iter().enumerate()
                    .filter(|(i, (c, lv))| (c.is_some() && c != lv) || ns.closed[*i])
                    .map(|(i, _)| self.files[i].rel).collect();
                let case = json!({"history": self.hist_json(&ns.hist), "invalid_files": invalid});
                let copy = Arc::new(deep_clone(&ns.db));
                x(&case, &copy);
            }
            return Some(ns);
        }
        let (_, text, valid) = &fv.versions[v as usize];
        // the real operation on a private copy of the real index
        let db = crate::seed::on_fresh_thread(|| {
            let db = deep_clone(&s.db);
            db.analyze_file(path_of(fv.rel), text);
            db
        });
        let mut key = s.key.clone();
        let mut valid_order = s.valid_order.clone();
        key[f as usize].0 = Some(v);
        if *valid {
            key[f as usize].1 = Some(v);
            valid_order.retain(|&x| x != f);
            valid_order.push(f);
        }
        let mut hist = s.hist.clone();
        hist.push(a);
        let mut closed = s.closed.clone();
        closed[f as usize] = false;
        let ns = St { key, closed, depth: s.depth + 1, hist, valid_order, db: Arc::new(db) };
        self.transitions.fetch_add(1, Ordering::Relaxed);
        // the oracle queries a private copy: queries warm caches, and caching is C07's subject
        if self.judge {
            crate::seed::on_fresh_thread(|| {
                let mut probe = ns.clone();
                probe.db = Arc::new(deep_clone(&ns.db));
                self.judge_transition(&probe)
            });
        }
        if let Some(x) = &self.extra {
            let invalid: Vec<&str> = ns
                .key
                .iter()
                .enumerate()
                .filter(|(i, (c, lv))| (c.is_some() && c != lv) || ns.closed[*i])
                .map(|(i, _)| self.files[i].rel)
                .collect();
            let case = json!({"history": self.hist_json(&ns.hist), "invalid_files": invalid});
            let copy = Arc::new(deep_clone(&ns.db));
            x(&case, &copy);
        }
        Some(ns)
    }
    fn properties(&self) -> Vec<Property<Self>> {
        vec![Property::always("explore", |_, _| true)]
    }
}

fn explore(m: HistModel) -> (Value, HistModel) {
    let m = Arc::new(m);
    struct W(Arc<HistModel>);
    impl Model for W {
        type State = St;
        type Action = (u8, u8);
        fn init_states(&self) -> Vec<St> {
            self.0.init_states()
        }
        fn actions(&self, s: &St, o: &mut Vec<(u8, u8)>) {
            self.0.actions(s, o)
        }
        fn next_state(&self, s: &St, a: (u8, u8)) -> Option<St> {
            self.0.next_state(s, a)
        }
        fn properties(&self) -> Vec<Property<Self>> {
            vec![Property::always("explore", |_, _| true)]
        }
    }
    let threads = std::thread::available_parallelism().map_or(4, |n| n.get());
    let ck = W(m.clone()).checker().threads(threads).spawn_bfs().join();
    let v = json!({
        "unique_states": ck.unique_state_count(),
        "generated_states": ck.state_count(),
        "max_depth": ck.max_depth(),
        "transitions": m.transitions.load(Ordering::Relaxed),
        "oracle_fresh_servers_built": m.oracle_fresh_builds.load(Ordering::Relaxed),
        "files": m.files.iter().map(|f| json!({"file": f.rel, "versions": f.versions.iter().map(|v| v.0).collect::<Vec<_>>()})).collect::<Vec<_>>(),
    });
    drop(ck);
    let m = Arc::try_unwrap(m).unwrap_or_else(|_| panic!("model still shared"));
    (v, m)
}

/// Ride-along for C04: visit every state of the history graph (no C06 judgement).
pub fn explore_for(
    rep: &'static Report,
    _cnt: &Counters,
    depth: u8,
    f: &'static (dyn Fn(&Value, &Arc<FixtureDatabase>) + Send + Sync),
) -> Value {
    let m = HistModel {
        files: files(false),
        max_depth: depth,
        rep,
        transitions: AtomicU64::new(0),
        oracle_fresh_builds: AtomicU64::new(0),
        judge: false,
        with_close: true,
        extra: Some(Box::new(f)),
        init: vec![],
    };
    explore(m).0
}

pub fn run(rep: &'static Report) {
    let thorough = is_thorough();
    let depth: u8 = if thorough { 4 } else { 3 };
    let m = HistModel {
        files: files(thorough),
        max_depth: depth,
        rep,
        transitions: AtomicU64::new(0),
        oracle_fresh_builds: AtomicU64::new(0),
        judge: true,
        with_close: false,
        extra: None,
        init: vec![],
    };
    let (v, m) = explore(m);
    // second run (DFS order is not offered with identical counters by stateright for depth-keyed
    // states; instead re-run BFS and require identical unique-state and transition counts)
    let m2 = HistModel { transitions: AtomicU64::new(0), oracle_fresh_builds: AtomicU64::new(0), judge: false, with_close: false, extra: None, init: vec![], files: files(thorough), max_depth: depth, rep };
    let (v2, _) = explore(m2);
    if v["unique_states"] != v2["unique_states"] || v["transitions"] != v2["transitions"] {
        rep.machinery_error(&format!("state/transition counts differ between two explorations: {} vs {}", v, v2));
    }
    rep.set("states", v["unique_states"].clone());
    rep.set("transitions", v["transitions"].clone());
    rep.set("evaluations", v["transitions"].clone());
    // distinct abstract states ignoring depth
    rep.set("distinct_nontrivial", v["unique_states"].clone());
    rep.set("max_depth", v["max_depth"].clone());
    rep.set("model", v);
    rep.set("traces_validated_against_impl", m.transitions.load(Ordering::Relaxed));
    rep.set("exhaustive", true);
    rep.set("rule", "explicit-state BFS (stateright) over all histories of didOpen/didChange full-text versions up to the stated depth; state = per file (current version, last valid version) + depth, carrying a deep copy of the real FixtureDatabase; action = analyze_file(file, version text) exactly as did_open/did_change call it; on EVERY generated transition: (1) index maps equal, as multisets, those of a fresh server fed the last valid content of every file, (2) undeclared findings of the last-changed document equal those of analysing it last on the fresh server, (3) every answer (go-to-definition at every usage, references of every definition, available fixtures, cycles, scope mismatches, unused) equals the fresh server's for some feed order; every transition executes the real code, hence traces_validated = transitions");
    rep.sample(json!({"history": m.hist_json(&[(0, 0), (2, 0), (0, 5), (0, 3)])}));
    // second model: import structure under edit, started from a populated (non-initial) state
    let idepth: u8 = if thorough { 4 } else { 3 };
    let mut import_models = vec![];
    for init in [vec![(2u8, 0u8), (1, 0), (0, 0), (3, 0)], vec![(3, 0), (0, 3), (1, 2), (2, 1)]] {
        let mi = HistModel {
            files: import_files(),
            max_depth: idepth,
            rep,
            transitions: AtomicU64::new(0),
            oracle_fresh_builds: AtomicU64::new(0),
            judge: true,
            with_close: false,
            extra: None,
            init: init.clone(),
        };
        let (vi, mi) = explore(mi);
        rep.add("states", vi["unique_states"].as_u64().unwrap_or(0));
        rep.add("transitions", vi["transitions"].as_u64().unwrap_or(0));
        rep.add("evaluations", vi["transitions"].as_u64().unwrap_or(0));
        rep.add("distinct_nontrivial", vi["unique_states"].as_u64().unwrap_or(0));
        rep.add("traces_validated_against_impl", mi.transitions.load(Ordering::Relaxed));
        import_models.push(json!({"start_history": mi.hist_json(&init).as_array().map(|a| a.iter().map(|h| format!("{}:={}", h["file"].as_str().unwrap_or(""), h["version"].as_str().unwrap_or(""))).collect::<Vec<_>>()), "model": vi}));
    }
    rep.set("import_structure_models", json!(import_models));
    rep.assume("queries are not asked inside documents whose current text is invalid (the statement only promises their last valid fixtures to the rest of the workspace)");
    rep.assume("the existential over fresh feed orders keeps C06 independent of the registration-order dependence judged by C08");
}

pub fn replay(v: &Value) {
    let hist = v["case"]["history"].as_array().cloned().unwrap_or_default();
    let db = FixtureDatabase::new();
    for h in &hist {
        if h["version"] == "CLOSE" {
            println!("cleanup_file_cache({})", h["file"]);
            db.cleanup_file_cache(&path_of(h["file"].as_str().unwrap()));
            continue;
        }
        println!("analyze_file({}, version `{}`)", h["file"], h["version"]);
        db.analyze_file(path_of(h["file"].as_str().unwrap()), h["text"].as_str().unwrap());
    }
    println!("--- live index after history");
    for l in index_snapshot(&db, ROOT, IndexParts::ALL) {
        println!("{}", l);
    }
    println!("--- recorded: {}", serde_json::to_string_pretty(&v["case"]).unwrap());
}
