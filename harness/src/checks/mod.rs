pub mod c01;
