pub mod c01;
pub mod c02;
pub mod c04;
pub mod c05;
pub mod c06;
pub mod c16;
pub mod c20;
pub mod wscheck;
