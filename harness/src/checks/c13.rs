//! C13 — discovery covers exactly pytest's files, wherever the workspace lives.
//! Bounded-exhaustive directory trees on tmpfs (deviation-bounded from a base tree) × exclude sets
//! × fault kinds × absolute root locations; oracle = reference discovery model + relocation
//! invariance of every root-relative answer.

use crate::db::answer_snapshot;
use crate::e5::Scratch;
use crate::report::{is_thorough, par_batches, Report};
use pytest_language_server::{Config, FixtureDatabase};
use serde::Serialize;
use serde_json::json;
use std::collections::BTreeSet;
use std::path::{Path, PathBuf};
use std::sync::atomic::{AtomicU64, Ordering};

const SKIP: &[&str] = &[".git", ".hg", ".svn", ".venv", "venv", "env", ".env", "__pycache__", ".pytest_cache", ".mypy_cache", ".ruff_cache", ".tox", ".nox", "build", "dist", ".eggs", "node_modules", "bower_components", "target", ".idea", ".vscode", ".cache", ".local", "vendor", "site-packages"];
const NEAR: &[(&str, bool)] = &[("test_.py", true), ("test_a.txt", false), ("atest_.py", false), ("_test.py", true), ("testa.py", false), ("conftest.pyc", false), ("Conftest.py", false), ("x_test.py", true)];

#[derive(Clone, Debug, Serialize, PartialEq)]
pub enum Fault {
    None,
    NonUtf8TestFile,
    NonUtf8ImportedModule,
    DanglingSymlink,
    DirectoryNamedLikeTest,
    /// a test file that is valid UTF-8 but does not parse
    SyntaxErrorTestFile,
}

#[derive(Clone, Debug, Serialize)]
pub struct Tree {
    /// near-pattern file (index into NEAR, in pkg/?)
    pub near: Option<(usize, bool)>,
    /// ignored-name directory (name, depth 1..3) holding a test file
    pub skipdir: Option<(String, usize)>,
    pub fault: Fault,
    /// index into EXCLUDES
    pub exclude: usize,
}

// the last set matches directories only (their relative paths), none of the files below them:
// exclusion is per path, so nothing is dropped
const EXCLUDES: &[&[&str]] = &[&[], &["pkg/**"], &["**/conftest.py"], &["*_test.py"], &["[unclosed", "pkg/sub/**"], &["pkg", "pkg/su?", "p?g"]];

fn ident(s: &str) -> String {
    s.chars().map(|c| if c.is_ascii_alphanumeric() { c } else { '_' }).collect()
}

fn test_text(tag: &str) -> String {
    let t = ident(tag);
    format!("import pytest\n\n@pytest.fixture\ndef fx_{t}():\n    return 1\n\ndef test_{t}(fx_{t}, root_fx):\n    pass\n")
}

impl Tree {
    /// (relative path, bytes, expected to be indexed by the reference model before excludes)
    fn files(&self) -> Vec<(String, Vec<u8>, bool)> {
        let mut v: Vec<(String, Vec<u8>, bool)> = vec![
            ("conftest.py".into(), b"import pytest\nfrom support import *\nfrom support2 import *\n\n@pytest.fixture\ndef root_fx():\n    return 1\n".to_vec(), true),
            // an imported module that imports a further module itself (second round of the import scan,
            // in which its sibling support2.py may be unreadable)
            ("support.py".into(), b"import pytest\nfrom support_deep import *\n\n@pytest.fixture\ndef support_fx():\n    return 1\n".to_vec(), true),
            ("support_deep.py".into(), b"import pytest\n\n@pytest.fixture\ndef support_deep_fx():\n    return 1\n".to_vec(), true),
            // a second imported module; the fault makes only this one unreadable
            ("support2.py".into(), if self.fault == Fault::NonUtf8ImportedModule { b"import pytest\n\n@pytest.fixture\ndef support2_fx():\n    return '\xe9'\n".to_vec() } else { b"import pytest\n\n@pytest.fixture\ndef support2_fx():\n    return 1\n".to_vec() }, self.fault != Fault::NonUtf8ImportedModule),
            ("test_a.py".into(), test_text("a").into_bytes(), true),
            ("pkg/b_test.py".into(), test_text("b").into_bytes(), true),
            // imports (absolute spelling) a module that lives two directories further up and that no
            // other file pulls in
            ("pkg/sub/conftest.py".into(), b"import pytest\nfrom support3 import *\n\n@pytest.fixture\ndef sub_fx(root_fx):\n    return 1\n".to_vec(), true),
            ("support3.py".into(), b"import pytest\n\n@pytest.fixture\ndef support3_fx():\n    return 1\n".to_vec(), true),
            ("notes.py".into(), test_text("notes").into_bytes(), false),
        ];
        if let Some((i, in_pkg)) = self.near {
            let (name, is_test) = NEAR[i];
            let rel = format!("{}{}", if in_pkg { "pkg/" } else { "" }, name);
            v.push((rel.clone(), test_text(&rel).into_bytes(), is_test));
        }
        if let Some((name, depth)) = &self.skipdir {
            let prefix = ["", "pkg/", "pkg/sub/"][depth - 1];
            let rel = format!("{}{}/test_hidden.py", prefix, name);
            v.push((rel.clone(), test_text(&rel).into_bytes(), false));
            let rel2 = format!("{}{}/conftest.py", prefix, name);
            v.push((rel2.clone(), test_text(&rel2).into_bytes(), false));
        }
        if self.fault == Fault::SyntaxErrorTestFile {
            // scanned and cached (its text is known) but contributes nothing; must not disturb the rest
            v.push(("pkg/test_broken.py".into(), b"import pytest\n\ndef test_broken(:\n    pass\n".to_vec(), true));
        }
        if self.fault == Fault::NonUtf8TestFile {
            let mut b = test_text("bad").into_bytes();
            b.extend_from_slice(b"# \xff\xfe\n");
            v.push(("pkg/test_bad.py".into(), b, false));
        }
        v
    }

    fn materialize(&self, root: &Path) {
        for (rel, bytes, _) in self.files() {
            let p = root.join(&rel);
            std::fs::create_dir_all(p.parent().unwrap()).unwrap();
            std::fs::write(&p, bytes).unwrap();
        }
        match self.fault {
            Fault::DanglingSymlink => {
                let _ = std::os::unix::fs::symlink(root.join("does_not_exist.py"), root.join("pkg/test_link.py"));
            }
            Fault::DirectoryNamedLikeTest => {
                std::fs::create_dir_all(root.join("pkg/test_dir.py")).unwrap();
                std::fs::write(root.join("pkg/test_dir.py/inner.txt"), "x").unwrap();
            }
            _ => {}
        }
        let ex = EXCLUDES[self.exclude];
        if !ex.is_empty() {
            let list: Vec<String> = ex.iter().map(|e| format!("\"{}\"", e)).collect();
            std::fs::write(root.join("pyproject.toml"), format!("[tool.pytest-language-server]\nexclude = [{}]\n", list.join(", "))).unwrap();
        }
    }

    /// reference discovery model: root-relative files that must be indexed
    fn expected(&self) -> BTreeSet<String> {
        let pats: Vec<glob::Pattern> = EXCLUDES[self.exclude].iter().filter_map(|p| glob::Pattern::new(p).ok()).collect();
        let mut s = BTreeSet::new();
        let excluded = |rel: &str| pats.iter().any(|p| p.matches(rel));
        for (rel, _, indexed) in self.files() {
            if indexed && !rel.starts_with("support") && !excluded(&rel) {
                s.insert(rel);
            }
        }
        // modules pulled in by an indexed file (each on its own: an unreadable one is skipped
        // without affecting the other)
        if s.contains("pkg/sub/conftest.py") {
            s.insert("support3.py".into());
        }
        if s.contains("conftest.py") {
            s.insert("support.py".into());
            s.insert("support_deep.py".into());
            if self.fault != Fault::NonUtf8ImportedModule {
                s.insert("support2.py".into());
            }
        }
        s
    }
}

fn enumerate(k: usize) -> Vec<Tree> {
    let mut nears: Vec<Option<(usize, bool)>> = vec![None];
    for i in 0..NEAR.len() {
        nears.push(Some((i, false)));
        nears.push(Some((i, true)));
    }
    let mut skips: Vec<Option<(String, usize)>> = vec![None];
    for n in SKIP.iter().map(|s| s.to_string()).chain(["x.egg-info".to_string(), "proj.egg-info".to_string()]) {
        for d in 1..=3 {
            skips.push(Some((n.clone(), d)));
        }
    }
    let faults = [Fault::None, Fault::NonUtf8TestFile, Fault::NonUtf8ImportedModule, Fault::DanglingSymlink, Fault::DirectoryNamedLikeTest, Fault::SyntaxErrorTestFile];
    let mut out = Vec::new();
    for (ni, n) in nears.iter().enumerate() {
        for (si, s) in skips.iter().enumerate() {
            for (fi, f) in faults.iter().enumerate() {
                for e in 0..EXCLUDES.len() {
                    let dev = usize::from(ni > 0) + usize::from(si > 0) + usize::from(fi > 0) + usize::from(e > 0);
                    if dev <= k {
                        out.push(Tree { near: *n, skipdir: s.clone(), fault: f.clone(), exclude: e });
                    }
                }
            }
        }
    }
    out
}

/// `given` = the root as spelled by the client, `root` = its canonical location (index keys are canonical)
fn scan(given: &Path, root: &Path) -> (FixtureDatabase, BTreeSet<String>) {
    let cfg = Config::load(given);
    let db = FixtureDatabase::new();
    db.scan_workspace_with_excludes(given, &cfg.exclude);
    let rs = root.to_string_lossy().to_string();
    let files: BTreeSet<String> = db.file_cache.iter().map(|e| crate::db::rel(e.key(), &rs)).collect();
    (db, files)
}

pub fn run(rep: &'static Report) {
    let thorough = is_thorough();
    let trees = enumerate(if thorough { 3 } else { 2 });
    let roots_all = ["plain/ws", "build/ws", "env/proj", "venv/ws", "target/debug/ws", "dist/ws", "x.egg-info/ws", "site-packages/ws", "my-site-packages-x/ws", "node_modules/ws"];
    let roots: Vec<&str> = if thorough { roots_all.to_vec() } else { vec!["plain/ws", "build/ws", "env/proj", "site-packages/ws", "my-site-packages-x/ws"] };
    // how the root is spelled when handed to the scan: canonical, through a symbolic link that lives
    // elsewhere, or with a `..` component (an editor passes the client's spelling through unchanged)
    let spelled: Vec<(&str, u8)> = roots
        .iter()
        .enumerate()
        .flat_map(|(i, r)| if thorough || i == 1 || i == 2 { vec![(*r, 0u8), (*r, 1), (*r, 2)] } else { vec![(*r, 0u8)] })
        .collect();
    let scans = AtomicU64::new(0);
    let nontrivial = AtomicU64::new(0);
    par_batches(&trees, 8, |i, t| {
        let want = t.expected();
        let mut base: Option<Vec<String>> = None;
        for (ri, (r, spelling)) in spelled.iter().enumerate() {
            let sc = Scratch::new("c13");
            let root = sc.path().join(r);
            std::fs::create_dir_all(&root).unwrap();
            t.materialize(&root);
            let given: PathBuf = match spelling {
                0 => root.clone(),
                1 => {
                    let link = sc.path().join("elsewhere-link");
                    std::os::unix::fs::symlink(&root, &link).unwrap();
                    link
                }
                _ => {
                    let parent = root.parent().unwrap();
                    std::fs::create_dir_all(parent.join("other")).unwrap();
                    parent.join("other").join("..").join(root.file_name().unwrap())
                }
            };
            let res = std::panic::catch_unwind(|| scan(&given, &root));
            scans.fetch_add(1, Ordering::Relaxed);
            let (db, files) = match res {
                Ok(x) => x,
                Err(_) => {
                    rep.violation("scan_workspace panicked", &format!("{:?} at {}", t, r), || json!({"tree": t, "root": r}));
                    continue;
                }
            };
            let case = || json!({"tree": t, "root_location": r, "root_spelling": (["canonical", "symlink", "dotdot"][*spelling as usize]), "files": t.files().iter().map(|f| f.0.clone()).collect::<Vec<_>>(), "indexed": files, "expected": want});
            if files != want {
                let extra: Vec<&String> = files.difference(&want).collect();
                let missing: Vec<&String> = want.difference(&files).collect();
                let loc = format!("{}{}", if ri == 0 { "plain location".to_string() } else { format!("root below `{}`", r.split('/').next().unwrap()) }, ["", ", given through a symbolic link", ", given with a `..` component"][*spelling as usize]);
                let why = if !missing.is_empty() && extra.is_empty() && files.is_empty() {
                    "nothing indexed".to_string()
                } else {
                    let mut k: Vec<String> = Vec::new();
                    if let Some(x) = extra.first() {
                        let name = x.rsplit('/').next().unwrap_or("");
                        k.push(if x.contains("test_hidden") || (x.ends_with("conftest.py") && t.skipdir.is_some() && x.matches('/').count() > 0 && !want.contains(*x)) { "indexes a file inside an ignored directory".to_string() } else if t.exclude > 0 { format!("indexes an excluded or non-matching file ({})", name) } else { format!("indexes a non-matching file ({})", name) });
                    }
                    if let Some(x) = missing.first() {
                        k.push(format!("misses {}", x.rsplit('/').next().unwrap_or("")));
                    }
                    k.join(" + ")
                };
                let fp = format!("discovery differs from pytest's file set [{}]: {}", loc, why);
                if !rep.count_if_seen(&fp) {
                    rep.violation(&fp, &format!("tree {:?}: extra {:?}, missing {:?}", t, extra, missing), case);
                }
            }
            // relocation invariance of every root-relative answer
            let rs = root.to_string_lossy().to_string();
            let paths: Vec<PathBuf> = want.iter().map(|f| root.join(f)).collect();
            let mut snap = answer_snapshot(&db, &rs, &paths);
            let mut tp: Vec<String> = Vec::new();
            for e in db.definitions.iter() {
                for d in e.value() {
                    tp.push(format!("CLASSIFY {} third_party={} plugin={}", crate::db::def_key(d, &rs), d.is_third_party, d.is_plugin));
                }
            }
            tp.sort();
            snap.extend(tp);
            match &base {
                None => base = Some(snap),
                Some(b) => {
                    if *b != snap {
                        let diff: Vec<&String> = snap.iter().filter(|l| !b.contains(l)).collect();
                        let kinds: BTreeSet<String> = diff.iter().map(|l| l.split(' ').next().unwrap_or("").to_string()).collect();
                        let fp = format!("answers change when the workspace is moved below `{}`{}: {:?}", r.split('/').next().unwrap(), ["", " and given through a symbolic link", " and given with a `..` component"][*spelling as usize], kinds);
                        if !rep.count_if_seen(&fp) {
                            rep.violation(&fp, &format!("tree {:?}: {:?}", t, diff.iter().take(6).collect::<Vec<_>>()), case);
                        }
                    }
                }
            }
        }
        if t.near.is_some() || t.skipdir.is_some() || t.fault != Fault::None || t.exclude > 0 {
            nontrivial.fetch_add(1, Ordering::Relaxed);
        }
        if i % 397 == 5 {
            rep.sample(json!({"tree": t, "files": t.files().iter().map(|f| f.0.clone()).collect::<Vec<_>>(), "expected_indexed": want}));
        }
    });
    // conformance with the real server: initialize on a materialised tree (configuration read from
    // its pyproject.toml), wait for the scan, ask workspace/symbol for everything — the files that
    // contribute symbols must be the model's file set (every file of the trees defines a fixture)
    let mut sessions = 0u64;
    for ex in 0..EXCLUDES.len() {
        for (r, fault) in [("plain/ws", Fault::None), ("build/ws", Fault::NonUtf8TestFile)] {
            let t = Tree { near: Some((3, true)), skipdir: Some(("node_modules".to_string(), 2)), fault: fault.clone(), exclude: ex };
            let sc = Scratch::new("c13srv");
            let root = sc.path().join(r);
            std::fs::create_dir_all(&root).unwrap();
            t.materialize(&root);
            let mut srv = crate::e5::Server::spawn(&[]);
            if srv.initialize(Some(&root)).is_err() || srv.wait_scan_complete().is_err() {
                rep.violation("real server did not finish its scan", &format!("{:?} at {}", t, r), || json!({"tree": t, "root": r}));
                continue;
            }
            let syms = srv.request("workspace/symbol", json!({"query": ""})).ok().and_then(|v| v.as_array().cloned()).unwrap_or_default();
            let prefix = format!("file://{}/", root.display());
            let got: BTreeSet<String> = syms.iter().filter_map(|s| s["location"]["uri"].as_str().and_then(|u| u.strip_prefix(&prefix)).map(|x| x.to_string())).collect();
            srv.shutdown();
            sessions += 1;
            crate::report::tick();
            let want = t.expected();
            if got != want {
                let extra: Vec<&String> = got.difference(&want).collect();
                let missing: Vec<&String> = want.difference(&got).collect();
                rep.violation("real server: files contributing workspace symbols differ from pytest's file set", &format!("tree {:?} at {}: extra {:?}, missing {:?}", t, r, extra, missing), || json!({"tree": t, "root": r, "got": got, "expected": want}));
            }
        }
    }
    rep.set("real_server_sessions", sessions);
    rep.set("evaluations", scans.load(Ordering::Relaxed));
    rep.set("trees", trees.len() as u64);
    rep.set("root_locations", json!(roots));
    rep.set("root_spellings", json!(spelled.iter().map(|(r, s)| format!("{} [{}]", r, ["canonical", "symlink", "dotdot"][*s as usize])).collect::<Vec<_>>()));
    rep.set("states", trees.len() as u64);
    rep.set("transitions", scans.load(Ordering::Relaxed));
    rep.set("distinct_nontrivial", nontrivial.load(Ordering::Relaxed));
    rep.set("traces_validated_against_impl", scans.load(Ordering::Relaxed));
    rep.set("exhaustive", true);
    rep.set("rule", "real directory trees on tmpfs: base tree {conftest.py importing support.py and support2.py, test_a.py, pkg/b_test.py, pkg/sub/conftest.py importing the root-level support3.py, notes.py} with at most 2 (quick) / 3 (thorough) deviations among: one of 8 near-pattern file names at 2 places, one of 27 ignored directory names (every SKIP_DIRECTORIES entry and *.egg-info) at depth 1..3 holding a test file and a conftest, one of 5 fault kinds (non-UTF-8 test file, non-UTF-8 imported module, dangling symlink, directory named like a test file, test file with a syntax error), one of 5 exclude sets given through pyproject.toml (incl. an invalid glob mixed with a valid one, and patterns that match directories but none of the files below them); every tree is created under each root location (plain and below ancestors named like ignored directories or containing 'site-packages'; the root handed over in canonical spelling, through a symbolic link living elsewhere, and with a `..` component) and scanned with the real scan_workspace_with_excludes; oracle: the indexed file set equals the reference discovery model, and every root-relative answer and classification is identical across root locations; conformance: for every exclude set the real server is initialised on two trees and the files contributing workspace symbols must equal the model's set");
    rep.assume("permission-denied cannot be produced as root and is not covered; glob semantics are those of the glob crate (the model uses the same matcher, what is judged is how the scanner applies the patterns)");
}
