//! C11 — no input or request sequence crashes or wedges the server.
//! Bounded-exhaustive adversarial text (Σ^≤k at every slot of every template) × version histories
//! (valid → mutated, so recorded positions are stale) × every request kind over a position grid,
//! with `catch_unwind` around every call; plugin-metadata / configuration contents from Σ'^≤k;
//! every distinct panic site is replayed against the REAL binary; scan isolation.

use crate::e5::{write_file, Scratch, Server};
use crate::lsp::{whole_doc_range, Lsp};
use crate::report::{is_thorough, par_batches, Report};
use pytest_language_server::{Config, FixtureDatabase};
use serde_json::{json, Value};
use std::cell::RefCell;
use std::collections::BTreeMap;
use std::path::PathBuf;
use std::sync::atomic::{AtomicU64, Ordering};
use std::sync::{Arc, Mutex};
use tower_lsp_server::ls_types::{Diagnostic, NumberOrString, Position, Range};

thread_local! {
    static LAST_PANIC: RefCell<String> = const { RefCell::new(String::new()) };
}

pub fn install_panic_hook() {
    std::panic::set_hook(Box::new(|info| {
        let loc = info.location().map(|l| format!("{}:{}", l.file().rsplit("/repo/").next().unwrap_or(l.file()), l.line())).unwrap_or_else(|| "?".into());
        let _ = LAST_PANIC.try_with(|p| *p.borrow_mut() = loc);
    }));
}
fn last_panic() -> String {
    LAST_PANIC.with(|p| p.borrow().clone())
}

const SIGMA: [&str; 15] = ["a", "é", "🙂", "\u{a0}", "\u{3000}", " ", "\t", "\n", "\r\n", ":", "(", ")", "\"", "#", "\\"];

fn strings(k: usize) -> Vec<String> {
    let mut out = vec![String::new()];
    let mut layer = vec![String::new()];
    for _ in 0..k {
        let mut next = Vec::new();
        for s in &layer {
            for c in SIGMA {
                next.push(format!("{}{}", s, c));
            }
        }
        out.extend(next.iter().cloned());
        layer = next;
    }
    out.remove(0);
    out
}

/// Templates: valid Python with slot markers §.
fn templates(thorough: bool) -> Vec<&'static str> {
    let mut v = vec![
        // fixture with a multi-line docstring (slots: docstring indentation, inside text, after it)
        "import pytest\n\n@pytest.fixture\ndef fx(§):\n    \"\"\"Summary§.\n\n  §  Indented§ body\n §   \"\"\"\n    return 1§\n\ndef test_t(fx§):\n    pass\n",
        // annotated parameters, defaults, return annotation
        "import pytest\n\n@pytest.fixture\ndef fx() -> \"T§\":\n    return 1\n\ndef test_t(§fx: int§, other§=\"é§\"):\n    fx§.go()\n",
        // multi-line signature
        "import pytest\n\n@pytest.fixture\ndef fx():\n    yield 1\n\ndef test_t(§\n    fx,§\n    other§,\n):§\n    pass\n",
        // usefixtures / pytestmark strings
        "import pytest\n\npytestmark = pytest.mark.usefixtures(\"fx§\")\n\n@pytest.fixture\ndef fx():\n    return 1\n\n@pytest.mark.usefixtures(§\"fx\"§, \"§other\")\ndef test_t():§\n    pass\n",
        // parametrize indirect
        "import pytest\n\n@pytest.fixture\ndef fx(request):\n    return request.param\n\n@pytest.mark.parametrize(\"fx§,val\"§, [(1, 2)], indirect=[\"fx§\"])\ndef test_t(fx, val§):\n    pass\n",
        // class-nested test and fixture
        "import pytest\n\nclass TestK§:\n    @pytest.fixture\n    def fx(self§):\n        return 1\n\n    def test_m(self, §fx):\n        assert fx§\n",
        // body using an undeclared fixture (diagnostic + code action path)
        "import pytest\n\n@pytest.fixture\ndef fx():\n    return 1\n\ndef test_t(§):\n    §x = fx§ + 1\n    fx.go(§)\n",
        // decorators with arguments, async, override
        "import pytest\n\n@pytest.fixture(scope=\"session§\", autouse=True§)\nasync def fx(fx§):\n    yield fx§\n\nasync def test_t(fx):\n    await fx§\n",
        // single-quoted multi-line docstring with mixed indentation
        "import pytest\n\n@pytest.fixture\ndef fx():\n    '''Single§ quoted\n\n\t§tabbed\n    '''\n    return 1\n",
    ];
    if thorough {
        v.extend([
            "import pytest\nfrom helper import *§\n\npytest_plugins = [\"helper§\"]\n\n@pytest.fixture\ndef fx():\n    return hx§\n",
            "import pytest\n\nfx = pytest.fixture(§)(lambda: 1)§\n\ndef test_t(fx):\n    pass\n§",
            "import pytest\n\n@pytest.fixture\ndef fx():\n    try:\n        yield 1§\n    finally:\n        pass§\n\ndef test_t(*, fx§, **kw):\n    pass\n",
        ]);
    }
    v
}

fn slot_count(t: &str) -> usize {
    t.matches('§').count()
}
fn fill(t: &str, slot: usize, s: &str) -> String {
    let mut out = String::new();
    for (i, part) in t.split('§').enumerate() {
        if i > 0 && i - 1 == slot {
            out.push_str(s);
        }
        out.push_str(part);
    }
    out
}

pub struct Hit {
    pub site: String,
    pub op: String,
    pub doc: String,
    pub base: Option<String>,
    pub line: u32,
    pub col: u32,
}

/// Every request kind over a position grid of `text`; returns panics found.
fn requests(db: &Arc<FixtureDatabase>, path: &PathBuf, text: &str, focus_line: usize, calls: &AtomicU64, hits: &mut Vec<(String, String, u32, u32)>) {
    let lsp = Lsp::new(db.clone(), None);
    let lines: Vec<&str> = text.split('\n').collect();
    let mut positions: Vec<(u32, u32)> = Vec::new();
    for (li, l) in lines.iter().enumerate() {
        let n16 = l.encode_utf16().count();
        if (li as i64 - focus_line as i64).abs() <= 1 {
            for c in 0..=(n16 + 2) {
                positions.push((li as u32, c as u32));
            }
        } else {
            for c in [0, n16 / 2, n16, n16 + 2] {
                positions.push((li as u32, c as u32));
            }
        }
    }
    let l = lines.len() as u32;
    positions.extend([(l, 0), (l + 1, 3), (0, u32::MAX), (u32::MAX, 0), (u32::MAX, u32::MAX)]);
    macro_rules! call {
        ($name:expr, $l:expr, $c:expr, $e:expr) => {{
            calls.fetch_add(1, Ordering::Relaxed);
            if $e.is_err() {
                hits.push((last_panic(), $name.to_string(), $l, $c));
            }
        }};
    }
    for (li, c) in positions {
        call!("definition", li, c, lsp.goto_definition(path, li, c));
        call!("implementation", li, c, lsp.goto_implementation(path, li, c));
        call!("hover", li, c, lsp.hover(path, li, c));
        call!("references", li, c, lsp.references(path, li, c));
        call!("completion", li, c, lsp.completion(path, li, c, None));
        match lsp.prepare_call_hierarchy(path, li, c) {
            Ok(Some(items)) => {
                calls.fetch_add(1, Ordering::Relaxed);
                for it in items {
                    call!("incomingCalls", li, c, lsp.incoming_calls(it.clone()));
                    call!("outgoingCalls", li, c, lsp.outgoing_calls(it));
                }
            }
            Ok(None) => {
                calls.fetch_add(1, Ordering::Relaxed);
            }
            Err(_) => hits.push((last_panic(), "prepareCallHierarchy".into(), li, c)),
        }
    }
    call!("documentSymbol", 0, 0, lsp.document_symbol(path));
    call!("workspaceSymbol", 0, 0, lsp.workspace_symbol(""));
    call!("codeLens", 0, 0, lsp.code_lens(path));
    call!("inlayHint", 0, 0, lsp.inlay_hint(path, whole_doc_range()));
    call!("inlayHint(reversed range)", 0, 0, lsp.inlay_hint(path, Range { start: Position { line: u32::MAX, character: 0 }, end: Position { line: 0, character: 0 } }));
    // code actions for every recorded undeclared finding and for stale / bogus ranges
    let mut diags: Vec<Diagnostic> = db
        .get_undeclared_fixtures(path)
        .iter()
        .map(|u| Diagnostic { range: Range { start: Position { line: (u.line - 1) as u32, character: u.start_char as u32 }, end: Position { line: (u.line - 1) as u32, character: u.end_char as u32 } }, code: Some(NumberOrString::String("undeclared-fixture".into())), ..Default::default() })
        .collect();
    diags.push(Diagnostic { range: Range { start: Position { line: u32::MAX, character: u32::MAX }, end: Position { line: 0, character: 0 } }, code: Some(NumberOrString::String("undeclared-fixture".into())), ..Default::default() });
    call!("codeAction", 0, 0, lsp.code_action(path, diags));
    let r = std::panic::catch_unwind(std::panic::AssertUnwindSafe(|| {
        let _ = db.get_unused_fixtures();
        let _ = db.detect_fixture_cycles();
        let _ = db.detect_scope_mismatches_in_file(path);
    }));
    call!("cli/diagnostics queries", 0, 0, r);
}

const CONF: &str = "import pytest\n\n@pytest.fixture\ndef other():\n    return 1\n\n@pytest.fixture\ndef hx():\n    return 2\n";

fn run_doc(base: &str, doc: &str, focus_line: usize, calls: &AtomicU64, out: &Mutex<Vec<Hit>>) {
    let path = PathBuf::from("/nonexistent/ws/test_doc.py");
    // (a) fresh analysis of the mutated text, (b) history valid -> mutated (stale positions)
    for hist in [false, true] {
        let mut hits: Vec<(String, String, u32, u32)> = Vec::new();
        let db = Arc::new(FixtureDatabase::new());
        db.analyze_file(PathBuf::from("/nonexistent/ws/conftest.py"), CONF);
        db.analyze_file(PathBuf::from("/nonexistent/ws/helper.py"), CONF);
        if hist {
            if std::panic::catch_unwind(std::panic::AssertUnwindSafe(|| db.analyze_file(path.clone(), base))).is_err() {
                hits.push((last_panic(), "analyze_file(base)".into(), 0, 0));
            }
        }
        calls.fetch_add(1, Ordering::Relaxed);
        if std::panic::catch_unwind(std::panic::AssertUnwindSafe(|| db.analyze_file(path.clone(), doc))).is_err() {
            hits.push((last_panic(), "analyze_file".into(), 0, 0));
        }
        requests(&db, &path, doc, focus_line, calls, &mut hits);
        if hist {
            // and closing + re-querying (text comes from a path that does not exist)
            db.cleanup_file_cache(&path);
            let mut h2 = Vec::new();
            requests(&db, &path, "", 0, calls, &mut h2);
            hits.extend(h2.into_iter().map(|(s, o, l, c)| (s, format!("{} after didClose", o), l, c)));
        }
        if !hits.is_empty() {
            let mut o = out.lock().unwrap();
            for (site, op, l, c) in hits {
                o.push(Hit { site, op, doc: doc.to_string(), base: if hist { Some(base.to_string()) } else { None }, line: l, col: c });
            }
        }
    }
}

/// Replay one panic against the real binary: the request must be answered (possibly with an
/// error) and the server must keep serving.
fn replay_on_binary(h: &Hit) -> String {
    let sc = Scratch::new("c11");
    let ws = sc.path().join("ws");
    std::fs::create_dir_all(&ws).unwrap();
    write_file(&ws, "conftest.py", CONF);
    let mut srv = Server::spawn(&[]);
    srv.deadline = std::time::Duration::from_secs(5);
    if srv.initialize(Some(&ws)).is_err() || srv.wait_scan_complete().is_err() {
        return "server did not start".into();
    }
    let uri = format!("file://{}/test_doc.py", ws.display());
    if let Some(b) = &h.base {
        srv.did_open(&uri, b);
        let _ = srv.wait_diagnostics(&uri);
        srv.did_change(&uri, 2, &h.doc);
    } else {
        srv.did_open(&uri, &h.doc);
    }
    let published = srv.wait_diagnostics(&uri).is_ok();
    let method = match h.op.split(' ').next().unwrap_or("") {
        "definition" => "textDocument/definition",
        "implementation" => "textDocument/implementation",
        "hover" => "textDocument/hover",
        "references" => "textDocument/references",
        "completion" => "textDocument/completion",
        "prepareCallHierarchy" | "incomingCalls" | "outgoingCalls" => "textDocument/prepareCallHierarchy",
        "documentSymbol" => "textDocument/documentSymbol",
        "codeLens" => "textDocument/codeLens",
        "inlayHint" | "inlayHint(reversed" => "textDocument/inlayHint",
        _ => "textDocument/documentSymbol",
    };
    let mut params = json!({"textDocument": {"uri": uri}, "position": {"line": h.line, "character": h.col}, "context": {"includeDeclaration": true}});
    if method == "textDocument/inlayHint" {
        params = json!({"textDocument": {"uri": uri}, "range": {"start": {"line": 0, "character": 0}, "end": {"line": 100000, "character": 0}}});
    }
    let first = srv.request(method, params);
    let second = srv.request("textDocument/documentSymbol", json!({"textDocument": {"uri": uri}}));
    let alive = srv.alive();
    format!("diagnostics published after the change: {}; {} -> {}; follow-up documentSymbol -> {}; process alive: {}", published, method, match &first { Ok(_) => "answered".to_string(), Err(e) => format!("{:?}", e) }, match &second { Ok(_) => "answered".to_string(), Err(e) => format!("{:?}", e) }, alive)
}

// ------------------------------------------------------------------ plugin metadata / configuration contents

const SIGMA2: [&str; 14] = ["a", "é", "🙂", "-", ".", "=", "[", "]", "1", "_", " ", "\n", ":", "\""];

fn strings2(k: usize) -> Vec<String> {
    let mut out = Vec::new();
    let mut layer = vec![String::new()];
    for _ in 0..k {
        let mut next = Vec::new();
        for s in &layer {
            for c in SIGMA2 {
                next.push(format!("{}{}", s, c));
            }
        }
        out.extend(next.iter().cloned());
        layer = next;
    }
    out
}

fn metadata_case(kind: usize, s: &str) -> Option<String> {
    let sc = Scratch::new("c11m");
    let ws = sc.path().join("ws");
    let sp = ws.join(".venv/lib/python3.11/site-packages");
    std::fs::create_dir_all(&sp).ok()?;
    write_file(&ws, "conftest.py", CONF);
    write_file(&ws, "src_plug/plug.py", CONF);
    let ok_name = |s: &str| !s.contains('/') && !s.contains('\n') && !s.contains('\0') && !s.is_empty() && s != "." && s != "..";
    match kind {
        0 => {
            // distribution directory name stem (editable install metadata inside)
            if !ok_name(s) {
                return None;
            }
            let d = format!("{}.dist-info", s);
            write_file(&sp, &format!("{}/direct_url.json", d), &format!("{{\"url\": \"file://{}\", \"dir_info\": {{\"editable\": true}}}}", ws.join("src_plug").display()));
            write_file(&sp, &format!("{}/entry_points.txt", d), "[pytest11]\nplug = plug\n");
            write_file(&sp, "__editable__.plug-1.0.pth", &format!("{}\n", ws.join("src_plug").display()));
        }
        1 => {
            // .pth file name stem
            if !ok_name(s) {
                return None;
            }
            write_file(&sp, "plug-1.0.dist-info/direct_url.json", &format!("{{\"url\": \"file://{}\", \"dir_info\": {{\"editable\": true}}}}", ws.join("src_plug").display()));
            write_file(&sp, "plug-1.0.dist-info/entry_points.txt", "[pytest11]\nplug = plug\n");
            write_file(&sp, &format!("{}.pth", s), &format!("{}\n", ws.join("src_plug").display()));
        }
        2 => {
            // .pth contents
            write_file(&sp, "plug-1.0.dist-info/direct_url.json", "{\"dir_info\": {\"editable\": true}}");
            write_file(&sp, "plug-1.0.dist-info/entry_points.txt", "[pytest11]\nplug = plug\n");
            write_file(&sp, "__editable__.plug-1.0.pth", s);
        }
        3 => {
            write_file(&sp, "plug-1.0.dist-info/entry_points.txt", &format!("[pytest11]\n{}\nplug = {}\n{}", s, s, s));
        }
        4 => {
            write_file(&sp, "plug-1.0.dist-info/direct_url.json", s);
            write_file(&sp, "plug-1.0.dist-info/entry_points.txt", "[pytest11]\nplug = plug\n");
        }
        _ => {
            write_file(&ws, "pyproject.toml", &format!("[tool.pytest-language-server]\nexclude = [\"{}\"]\ndisabled_diagnostics = [\"{}\"]\n{}", s.replace('"', "").replace('\n', ""), s.replace('"', "").replace('\n', ""), s));
        }
    }
    let r = std::panic::catch_unwind(|| {
        let cfg = Config::load(&ws);
        let db = FixtureDatabase::new();
        db.scan_workspace_with_excludes(&ws, &cfg.exclude);
        db.definitions.contains_key("other")
    });
    match r {
        Err(_) => Some(format!("panic at {}", last_panic())),
        Ok(false) if kind != 5 => Some("the project's own conftest was not indexed".into()),
        _ => None,
    }
}

pub fn run(rep: &'static Report) {
    install_panic_hook();
    let thorough = is_thorough();
    let k = if thorough { 3 } else { 2 };
    let strs = strings(k);
    let temps = templates(thorough);
    let calls = AtomicU64::new(0);
    let docs = AtomicU64::new(0);
    let hits: Mutex<Vec<Hit>> = Mutex::new(Vec::new());
    let mut cases: Vec<(usize, usize, usize)> = Vec::new(); // template, slot, string
    for (ti, t) in temps.iter().enumerate() {
        for slot in 0..slot_count(t) {
            for si in 0..strs.len() {
                cases.push((ti, slot, si));
            }
        }
    }
    par_batches(&cases, 8, |_i, (ti, slot, si)| {
        let base = fill(temps[*ti], usize::MAX, "");
        let doc = fill(temps[*ti], *slot, &strs[*si]);
        // the line where the slot is
        let before: String = temps[*ti].split('§').take(slot + 1).collect::<Vec<_>>().join("");
        let focus = before.matches('\n').count();
        docs.fetch_add(1, Ordering::Relaxed);
        crate::seed::on_fresh_thread(|| {
            install_panic_hook();
            run_doc(&base, &doc, focus, &calls, &hits)
        });
    });
    // two big documents (a sweep, not an enumeration)
    for (name, doc) in [("5 MB document", format!("import pytest\n\n@pytest.fixture\ndef fx():\n    \"\"\"{}\"\"\"\n    return 1\n\ndef test_t(fx):\n    pass\n", "é ".repeat(1_700_000))), ("100000-line document", "import pytest\n\n@pytest.fixture\ndef fx():\n    return 1\n\n".to_string() + &"def test_t(fx):\n    pass\n\n".repeat(33_000))] {
        let t0 = std::time::Instant::now();
        let path = PathBuf::from("/nonexistent/ws/test_big.py");
        let db = Arc::new(FixtureDatabase::new());
        let r = std::panic::catch_unwind(std::panic::AssertUnwindSafe(|| {
            db.analyze_file(path.clone(), &doc);
            let lsp = Lsp::new(db.clone(), None);
            let _ = lsp.document_symbol(&path);
            let _ = lsp.goto_definition(&path, 7, 11);
            let _ = lsp.completion(&path, 8, 4, None);
            let _ = lsp.inlay_hint(&path, whole_doc_range());
        }));
        if r.is_err() {
            rep.violation(&format!("panic on a very large document ({}) at {}", name, last_panic()), name, || json!({"document": name}));
        }
        if t0.elapsed().as_secs() > 60 {
            rep.violation(&format!("very large document ({}) takes more than 60 s", name), &format!("{:?}", t0.elapsed()), || json!({"document": name}));
        }
    }
    // long expressions (a sweep through the REAL binary, one process per size: a stack overflow is not a
    // panic and would take this check's process down with it)
    for n in [100usize, 1000, 5000, 20000] {
        let doc = format!("import pytest\n\n@pytest.fixture\ndef fx():\n    y = 1{}\n    return y\n\ndef test_t(fx):\n    pass\n", " + 1".repeat(n));
        let sc = crate::e5::Scratch::new("c11x");
        let ws = sc.path().join("ws");
        std::fs::create_dir_all(&ws).unwrap();
        let mut srv = Server::spawn(&[]);
        if srv.initialize(Some(&ws)).is_err() || srv.wait_scan_complete().is_err() {
            rep.machinery_error("C11 long expressions: server did not initialise");
            continue;
        }
        let uri = format!("file://{}/test_long.py", ws.display());
        srv.did_open(&uri, &doc);
        let answered = srv.wait_diagnostics(&uri).is_ok() && srv.request("textDocument/documentSymbol", json!({"textDocument": {"uri": uri}})).is_ok();
        if !answered || !srv.alive() {
            rep.violation(&format!("the server process dies on a document with a long expression [{} chained operators]", n), &format!("`y = 1 + 1 + …` with {} operators inside a fixture body: no answer after didOpen (process alive: {})", n, srv.alive()), || json!({"chained_operators": n}));
        }
        srv.shutdown();
        crate::report::tick();
    }
    // group panics by site + operation family
    let hits = hits.into_inner().unwrap();
    let mut by_site: BTreeMap<String, &Hit> = BTreeMap::new();
    let mut counts: BTreeMap<String, u64> = BTreeMap::new();
    for h in &hits {
        let opk = h.op.split(' ').next().unwrap_or("").to_string();
        let key = format!("panic at {} during {}", h.site, opk);
        *counts.entry(key.clone()).or_insert(0) += 1;
        let better = by_site.get(&key).is_none_or(|o| h.doc.len() < o.doc.len());
        if better {
            by_site.insert(key, h);
        }
    }
    for (key, h) in &by_site {
        if rep.count_if_seen(key) {
            continue;
        }
        let effect = replay_on_binary(h);
        rep.violation(key, &format!("{} occurrence(s); shortest document {:?}{}; request at {}:{}; against the real binary: {}", counts[key], h.doc, h.base.as_ref().map(|_| " (after a valid version: stale positions)").unwrap_or(""), h.line, h.col, effect), || json!({"document": h.doc, "previous_valid_version": h.base, "operation": h.op, "line": h.line, "col": h.col, "effect_on_real_binary": effect}));
    }
    // scan isolation: a document that makes analysis panic must not keep the scan from indexing the others
    let analysis_panics: Vec<&Hit> = by_site.values().filter(|h| h.op.starts_with("analyze_file")).cloned().collect();
    for h in analysis_panics {
        let sc = Scratch::new("c11s");
        for i in 0..3 {
            write_file(sc.path(), &format!("pkg{}/test_good{}.py", i, i), &format!("import pytest\n\n@pytest.fixture\ndef good{}():\n    return 1\n\ndef test_g(good{}):\n    pass\n", i, i));
        }
        write_file(sc.path(), "pkg1/test_poison.py", &h.doc);
        let r = std::panic::catch_unwind(|| {
            let db = FixtureDatabase::new();
            db.scan_workspace(sc.path());
            (0..3).filter(|i| db.definitions.contains_key(&format!("good{}", i))).count()
        });
        let indexed = r.as_ref().copied().unwrap_or(0);
        if indexed != 3 {
            rep.violation("one malformed file aborts the workspace scan for the others", &format!("{} of 3 good files indexed (scan panicked: {}); poison document {:?}", indexed, r.is_err(), h.doc), || json!({"poison": h.doc}));
        }
    }
    // plugin metadata / configuration contents
    // names (directory / .pth stems) up to length 3 in both tiers (a '-' followed by a digit needs 3),
    // contents up to length 2 (quick) / 3 (thorough)
    let meta = strings2(3);
    let short = meta.iter().filter(|s| s.chars().count() <= 2).count();
    let mcases: Vec<(usize, usize)> = (0..6)
        .flat_map(|kd| (0..meta.len()).map(move |i| (kd, i)))
        .filter(|(kd, i)| thorough || *kd <= 1 || *i < short)
        .collect();
    let mcount = AtomicU64::new(0);
    par_batches(&mcases, 16, |_i, (kind, si)| {
        install_panic_hook();
        mcount.fetch_add(1, Ordering::Relaxed);
        if let Some(p) = metadata_case(*kind, &meta[*si]) {
            let kn = ["distribution directory name", ".pth file name", ".pth contents", "entry_points.txt contents", "direct_url.json contents", "pyproject.toml contents"][*kind];
            let fp = format!("workspace scan fails on {}: {}", kn, p);
            if !rep.count_if_seen(&fp) {
                rep.violation(&fp, &format!("{} = {:?}", kn, meta[*si]), || json!({"kind": kn, "string": meta[*si]}));
            }
        }
    });
    // unusable pyproject.toml files whose offending line is long and holds one multi-byte character at
    // every offset (error reporting must not slice inside it): syntax error, wrong type, bad table
    let mut cfg_cases: Vec<(usize, usize, usize)> = Vec::new(); // (form, offset, char)
    for form in 0..4 {
        for off in 0..=100usize {
            for ch in 0..3 {
                cfg_cases.push((form, off, ch));
            }
        }
    }
    let ccount = AtomicU64::new(0);
    par_batches(&cfg_cases, 32, |_i, (form, off, ch)| {
        install_panic_hook();
        ccount.fetch_add(1, Ordering::Relaxed);
        let c = ["é", "€", "🙂"][*ch];
        let filler: String = "x".repeat(*off) + c + &"y".repeat(100usize.saturating_sub(*off));
        let toml = match form {
            0 => format!("[tool.pytest-language-server]\ndescription = {}\n", filler),
            1 => format!("[tool.pytest-language-server]\nexclude = \"{}\"\n", filler),
            2 => format!("[tool.pytest-language-server\n# {}\nexclude = []\n", filler),
            _ => format!("[project]\nname = \"{}\"\n[tool.pytest-language-server]\ndisabled_diagnostics = [{}]\n", filler, filler),
        };
        let sc = Scratch::new("c11cfg");
        let ws = sc.path().join("ws");
        write_file(&ws, "conftest.py", "import pytest\n\n@pytest.fixture\ndef other():\n    return 1\n");
        write_file(&ws, "pyproject.toml", &toml);
        let r = std::panic::catch_unwind(|| {
            let cfg = Config::load(&ws);
            let db = FixtureDatabase::new();
            db.scan_workspace_with_excludes(&ws, &cfg.exclude);
            db.definitions.contains_key("other")
        });
        let bad = match r {
            Err(_) => Some(format!("panic at {}", last_panic())),
            Ok(false) => Some("the project's own conftest was not indexed".to_string()),
            Ok(true) => None,
        };
        if let Some(p) = bad {
            let fp = format!("unusable pyproject.toml takes the scan down: {}", p);
            if !rep.count_if_seen(&fp) {
                rep.violation(&fp, &format!("form {} with {:?} at offset {}", form, c, off), || json!({"pyproject": toml}));
            }
        }
    });
    rep.set("unusable_config_cases", ccount.load(Ordering::Relaxed));
    let c = calls.load(Ordering::Relaxed);
    rep.set("evaluations", c + mcount.load(Ordering::Relaxed) + ccount.load(Ordering::Relaxed));
    rep.set("documents", docs.load(Ordering::Relaxed) * 2);
    rep.set("handler_and_analysis_calls", c);
    rep.set("metadata_cases", mcount.load(Ordering::Relaxed));
    rep.set("states", docs.load(Ordering::Relaxed) * 2);
    rep.set("transitions", c);
    rep.set("distinct_nontrivial", docs.load(Ordering::Relaxed));
    rep.set("traces_validated_against_impl", c);
    rep.set("distinct_panic_sites", by_site.len() as u64);
    rep.set("alphabet", json!(SIGMA));
    rep.set("max_string_length", k as u64);
    rep.set("exhaustive", true);
    rep.sample(json!({"template": temps[0], "slot": 3, "string": strs[20], "document": fill(temps[0], 3, &strs[20])}));
    rep.set("rule", "every string of Σ^≤k (Σ = a, é, 🙂, NBSP, U+3000, space, tab, LF, CRLF, ':', '(', ')', '\"', '#', '\\') inserted at every slot of every template (9 quick / 12 thorough templates: docstrings, annotated and multi-line signatures, usefixtures/pytestmark/parametrize strings, class-nested code, bodies with undeclared uses, async/override decorators…), each document analysed (a) on its own and (b) after the valid base version (so positions recorded earlier are stale), then after didClose; after each analysis all request kinds (definition, implementation, hover, references, completion, call hierarchy, documentSymbol, workspace/symbol, codeLens, inlayHint incl. reversed range, codeAction incl. bogus ranges, CLI/diagnostic queries) over a position grid (every column up to len+2 on the mutated line and its neighbours, 4 columns elsewhere, lines beyond the end, u32 extremes), every call under catch_unwind; every distinct panic site is replayed against the real binary; every string of Σ'^≤k as distribution-directory / .pth name and as .pth / entry_points.txt / direct_url.json / pyproject.toml contents with a real scan; 1212 unusable pyproject.toml files (4 forms × one multi-byte character of 2, 3 or 4 bytes at every offset 0..100 of the offending line); two very large documents (sweep)");
    rep.assume("the in-process sweep finds panics; wedging of the real server is established only for the distinct panic sites replayed against the binary");
}

pub fn replay(v: &Value) {
    install_panic_hook();
    let doc = v["document"].as_str().unwrap_or("").to_string();
    let base = v["previous_valid_version"].as_str().map(|s| s.to_string());
    let calls = AtomicU64::new(0);
    let out = Mutex::new(Vec::new());
    run_doc(base.as_deref().unwrap_or(""), &doc, 0, &calls, &out);
    for h in out.into_inner().unwrap() {
        println!("panic at {} during {} ({}:{})", h.site, h.op, h.line, h.col);
    }
    println!("recorded: {}", serde_json::to_string_pretty(v).unwrap());
}
