//! C17 — undeclared-fixture warnings are precise and their quick fix works.
//! Signature shapes × body forms × binding forms × flavour (oracle/gen_c17.py, CPython ast) vs the
//! real analyzer; every offered quick fix / completion parameter edit is applied and the edited
//! document re-parsed by CPython (oracle/check_c17.py) and re-analysed.

use crate::e4::{generate, report_findings, Finding};
use crate::lsp::Lsp;
use crate::report::{is_thorough, par_batches, Report};
use pytest_language_server::FixtureDatabase;
use serde_json::{json, Value};
use std::io::Write;
use std::path::PathBuf;
use std::sync::{Arc, Mutex};
use tower_lsp_server::ls_types::*;

const CONFTEST: &str = "import pytest\nfrom fxhelpers import *\n\n@pytest.fixture\ndef fx():\n    return 1\n";
// a module the conftest star-imports: its fixture is visible from the test through the conftest
const HELPERS: &str = "import pytest\n\n@pytest.fixture\ndef impfx():\n    return 1\n";
// directories beside t/: their conftest.py files are not visible from the test, whatever they define —
// also a fixture called `fx` like the visible one (one registered before the root conftest, one after it)
const SIBLING: &str = "import pytest\n\n@pytest.fixture\ndef sibfx():\n    return 1\n\n@pytest.fixture\ndef fx():\n    return 2\n";
const SIBLING_LATE: &str = "import pytest\n\n@pytest.fixture\ndef fx():\n    return 3\n";

fn paths() -> (PathBuf, PathBuf, PathBuf) {
    (PathBuf::from("/nonexistent/ws/conftest.py"), PathBuf::from("/nonexistent/ws/zsib/conftest.py"), PathBuf::from("/nonexistent/ws/t/test_case.py"))
}

fn fresh_db(text: &str) -> Arc<FixtureDatabase> {
    let (c, s, t) = paths();
    let db = Arc::new(FixtureDatabase::new());
    db.analyze_file(s, SIBLING);
    db.analyze_file(PathBuf::from("/nonexistent/ws/fxhelpers.py"), HELPERS);
    db.analyze_file(c, CONFTEST);
    db.analyze_file(PathBuf::from("/nonexistent/ws/ysib/conftest.py"), SIBLING_LATE);
    db.analyze_file(t, text);
    db
}

pub fn apply_edits(text: &str, edits: &[TextEdit]) -> Option<String> {
    let mut lines: Vec<String> = text.split('\n').map(|s| s.to_string()).collect();
    let mut es: Vec<&TextEdit> = edits.iter().collect();
    es.sort_by_key(|e| std::cmp::Reverse((e.range.start.line, e.range.start.character)));
    for e in es {
        if e.range.start != e.range.end {
            return None;
        }
        let l = lines.get_mut(e.range.start.line as usize)?;
        // UTF-16 column -> byte index
        let mut u = 0usize;
        let mut b = None;
        for (i, ch) in l.char_indices() {
            if u == e.range.start.character as usize {
                b = Some(i);
                break;
            }
            u += ch.len_utf16();
        }
        let b = b.or(if u == e.range.start.character as usize { Some(l.len()) } else { None })?;
        l.insert_str(b, &e.new_text);
    }
    Some(lines.join("\n"))
}

struct Edited {
    case: usize,
    tag: String,
    original: String,
    edited: String,
    function: String,
    name: String,
}

fn observe(ci: usize, case: &Value, out: &Mutex<Vec<Finding>>, edited: &Mutex<Vec<Edited>>) {
    let src = case["source"].as_str().unwrap_or("");
    let exp = &case["expected"];
    let (_, _, t) = paths();
    let func = exp["function"].as_str().unwrap_or("").to_string();
    let name = exp["name"].as_str().unwrap_or("").to_string();
    let db = match std::panic::catch_unwind(|| fresh_db(src)) {
        Ok(d) => d,
        Err(_) => {
            out.lock().unwrap().push(Finding { case_index: ci, what: "analysis panicked".into(), detail: String::new() });
            return;
        }
    };
    let mut push = |what: String, detail: String| out.lock().unwrap().push(Finding { case_index: ci, what, detail });
    if !db.imports.contains_key(&t) {
        push("PARSER-DISAGREEMENT".into(), String::new());
        return;
    }
    let und = db.get_undeclared_fixtures(&t);
    let mut got: Vec<(u64, u64, u64)> = und.iter().filter(|u| u.function_name == func && u.name == name).map(|u| (u.line as u64, u.start_char as u64, u.end_char as u64)).collect();
    got.sort();
    let mut want: Vec<(u64, u64, u64)> = exp["findings"].as_array().unwrap().iter().map(|s| (s[0].as_u64().unwrap(), s[1].as_u64().unwrap(), s[2].as_u64().unwrap())).collect();
    want.sort();
    // findings in other functions are never expected
    for u in und.iter().filter(|u| u.function_name != func) {
        push("warning issued in a function that does not use the name".into(), format!("{} flagged in {}", u.name, u.function_name));
    }
    if exp["judged"] == true && got != want {
        let cls = if want.is_empty() { "false-positive" } else if got.is_empty() { "use-not-flagged" } else if got.len() < want.len() { "some-uses-not-flagged" } else if got.len() > want.len() { "flagged-more-than-once" } else { "wrong-position" };
        push(format!("undeclared-fixture warning: {}", cls), format!("function {}: expected findings {:?}, reported {:?}", func, want, got));
    }
    // ---- round trip for every reported finding (judged or not)
    let lsp = Lsp::new(db.clone(), None);
    for u in und.iter().filter(|u| u.function_name == func) {
        let diag = Diagnostic {
            range: Range { start: Position { line: (u.line - 1) as u32, character: u.start_char as u32 }, end: Position { line: (u.line - 1) as u32, character: u.end_char as u32 } },
            code: Some(NumberOrString::String("undeclared-fixture".into())),
            ..Default::default()
        };
        match lsp.code_action(&t, vec![diag]) {
            Ok(Some(actions)) => {
                for a in actions {
                    if let CodeActionOrCommand::CodeAction(ca) = a {
                        let edits: Vec<TextEdit> = ca.edit.and_then(|e| e.changes).map(|c| c.into_values().flatten().collect()).unwrap_or_default();
                        match apply_edits(src, &edits) {
                            Some(ed) => edited.lock().unwrap().push(Edited { case: ci, tag: "quick fix".into(), original: src.to_string(), edited: ed, function: func.clone(), name: u.name.clone() }),
                            None => push("quick fix: edit cannot be applied".into(), format!("{:?}", edits)),
                        }
                    }
                }
            }
            Ok(None) => {}
            Err(p) => push("codeAction panicked".into(), p),
        }
        // completion in the body at the use position: the entry for this fixture carries a parameter edit
        match lsp.completion(&t, (u.line - 1) as u32, u.start_char as u32, None) {
            Ok(Some(items)) => {
                for it in items.iter().filter(|i| i.label == u.name) {
                    if let Some(edits) = &it.additional_text_edits {
                        match apply_edits(src, edits) {
                            Some(ed) => edited.lock().unwrap().push(Edited { case: ci, tag: "completion parameter edit".into(), original: src.to_string(), edited: ed, function: func.clone(), name: u.name.clone() }),
                            None => push("completion parameter edit cannot be applied".into(), format!("{:?}", edits)),
                        }
                    }
                }
            }
            Ok(None) => {}
            Err(p) => push("completion panicked".into(), p),
        }
    }
}

pub fn run(rep: &'static Report) {
    let thorough = is_thorough();
    let k = if thorough { 4 } else { 3 };
    let cases = generate("gen_c17.py", k, &[]);
    let findings: Mutex<Vec<Finding>> = Mutex::new(Vec::new());
    let edited: Mutex<Vec<Edited>> = Mutex::new(Vec::new());
    par_batches(&cases, 64, |i, c| {
        if c.get("expected").is_some() {
            observe(i, c, &findings, &edited);
        }
    });
    let edited = edited.into_inner().unwrap();
    // second pass: CPython re-parses every edited document
    let tmp = format!("/dev/shm/verif-c17-{}.jsonl", std::process::id());
    {
        let mut f = std::fs::File::create(&tmp).expect("tmp");
        for (i, e) in edited.iter().enumerate() {
            writeln!(f, "{}", json!({"id": i, "tag": e.tag, "original": e.original, "edited": e.edited, "function": e.function, "name": e.name})).unwrap();
        }
    }
    let o = std::process::Command::new("python3").arg("/verif/oracle/check_c17.py").stdin(std::fs::File::open(&tmp).unwrap()).output().expect("check_c17.py");
    let _ = std::fs::remove_file(&tmp);
    if !o.status.success() {
        rep.machinery_error(&format!("check_c17.py failed: {}", String::from_utf8_lossy(&o.stderr)));
    }
    let mut verdicts = 0u64;
    for l in String::from_utf8_lossy(&o.stdout).lines() {
        let v: Value = match serde_json::from_str(l) {
            Ok(v) => v,
            Err(_) => continue,
        };
        verdicts += 1;
        let e = &edited[v["id"].as_u64().unwrap() as usize];
        if v["ok"] != true {
            let reason = v["reason"].as_str().unwrap_or("");
            let cls = reason.split(':').next().unwrap_or("").split('(').next().unwrap_or("").trim().to_string();
            findings.lock().unwrap().push(Finding { case_index: e.case, what: format!("{}: {}", e.tag, cls), detail: format!("{} — edited document:\n{}", reason, e.edited) });
        } else {
            // the warning must be gone after re-analysis
            let db = fresh_db(&e.edited);
            let (_, _, t) = paths();
            if db.get_undeclared_fixtures(&t).iter().any(|u| u.function_name == e.function && u.name == e.name) {
                findings.lock().unwrap().push(Finding { case_index: e.case, what: format!("{}: warning still present after re-analysis", e.tag), detail: e.edited.clone() });
            }
        }
    }
    if verdicts != edited.len() as u64 {
        rep.machinery_error(&format!("check_c17.py returned {} verdicts for {} edited documents", verdicts, edited.len()));
    }
    let mut f = findings.into_inner().unwrap();
    let disagreements = f.iter().filter(|x| x.what == "PARSER-DISAGREEMENT").count();
    f.retain(|x| x.what != "PARSER-DISAGREEMENT");
    let counts = report_findings(rep, &cases, f);
    let judged = cases.iter().filter(|c| c["expected"]["judged"] == true).count();
    rep.set("evaluations", cases.len() as u64);
    rep.set("programs", cases.len() as u64);
    rep.set("judged_programs", judged as u64);
    rep.set("edited_documents_reparsed_by_cpython", edited.len() as u64);
    rep.set("parser_disagreements_outside_verdict", disagreements as u64);
    rep.set("states", cases.len() as u64);
    rep.set("transitions", (cases.len() + edited.len()) as u64);
    rep.set("distinct_nontrivial", cases.iter().filter(|c| c["dims"].as_object().is_some_and(|o| !o.is_empty())).count() as u64);
    rep.set("traces_validated_against_impl", edited.len() as u64);
    rep.set("max_deviations", k as u64);
    rep.set("finding_counts", json!(counts));
    rep.set("exhaustive", true);
    if let Some(c) = cases.iter().find(|c| c["dims"].as_object().is_some_and(|o| o.len() == 2)) {
        rep.sample(json!({"dims": c["dims"], "source": c["source"], "expected": c["expected"]}));
    }
    rep.set("rule", "17 signature shapes × 30 body forms containing the name × 11 binding forms × {test, fixture} (quick: ≤2 off-default, thorough: the full product) in a workspace where `fx` is visible from a conftest and `sibfx` only from a sibling directory; oracle 1: CPython ast gives the expected finding positions (never for a parameter, earlier local, loop/with target, module-level name/import/def, non-visible or unknown name; exactly one per plain use otherwise; f-string/lambda/comprehension/later-assignment forms are recorded but not judged); oracle 2: every offered quick fix and every completion parameter edit is applied, the edited document must be valid Python (CPython), have the fixture as a parameter of the SAME function with its other parameters and body unchanged, leave every other function untouched (ast.dump), and produce no warning for that name on re-analysis");
    rep.assume("when no quick fix is offered (multi-line signatures, return annotations) nothing is judged for that finding");
}

pub fn replay(v: &Value) {
    println!("{}", v["source"].as_str().unwrap_or(""));
    println!("dims: {}", v["dims"]);
    println!("recorded detail: {}", v["detail"].as_str().unwrap_or(""));
}
