//! C01 — fixture resolution follows pytest's shadowing order.
//! Bounded-exhaustive layouts × all registration orders of the definers × every usage kind ×
//! every column, against the `PytestLookup` reference model (ws.rs).

use crate::checks::wscheck::{case_json, check_usages, Counters};
use crate::db::{build_db, hash_lines, index_snapshot, permutations, IndexParts};
use crate::layouts::Layout;
use crate::report::{is_thorough, par_batches, Report};
use crate::ws::{Ws, ROOT};
use serde_json::json;
use std::sync::atomic::Ordering;
use std::sync::Arc;

pub fn definers(ws: &Ws) -> (Vec<usize>, Vec<usize>) {
    let mut d = Vec::new();
    let mut o = Vec::new();
    for (i, f) in ws.files.iter().enumerate() {
        if f.defines("fx") {
            d.push(i)
        } else {
            o.push(i)
        }
    }
    (d, o)
}

pub fn run(rep: &Report) {
    let thorough = is_thorough();
    let max_depth = if thorough { 3 } else { 2 };
    let max_definers = if thorough { 6 } else { 5 };
    let layouts = Layout::enumerate(max_depth, false);
    let cnt = Counters::new();
    let nlay = layouts.len();
    par_batches(&layouts, 32, |i, lay| {
        let ws = lay.to_ws();
        let r = ws.render();
        let (defs, others) = definers(&ws);
        if defs.len() >= 2 {
            cnt.nontrivial.fetch_add(1, Ordering::Relaxed);
        }
        let perms: Vec<Vec<usize>> = if defs.len() > max_definers {
            // above the bound: not all n! orders, but every rotation and its reverse (each definer
            // is registered first and last at least once); counted separately
            cnt.skipped.fetch_add(1, Ordering::Relaxed);
            let n = defs.len();
            let mut v = Vec::new();
            for r in 0..n {
                let rot: Vec<usize> = (0..n).map(|k| (k + r) % n).collect();
                let mut rev = rot.clone();
                rev.reverse();
                v.push(rot);
                v.push(rev);
            }
            v
        } else {
            permutations(defs.len())
        };
        for perm in perms {
            let mut order = others.clone();
            order.extend(perm.iter().map(|&k| defs[k]));
            let db = Arc::new(build_db(&ws, &r, &order, false));
            cnt.dbs.fetch_add(1, Ordering::Relaxed);
            cnt.analyses.fetch_add(order.len() as u64, Ordering::Relaxed);
            let h = hash_lines(&index_snapshot(&db, ROOT, IndexParts::CORE));
            cnt.states.lock().unwrap().insert(h);
            check_usages(rep, &cnt, &case_json(&ws, &order, false), &ws, &r, &db);
        }
        if i % 997 == 0 {
            rep.sample(json!({"layout": lay, "files": ws.files.iter().map(|f| f.rel.clone()).collect::<Vec<_>>()}));
        }
    });
    let q = cnt.queries.load(Ordering::Relaxed);
    rep.set("evaluations", q);
    rep.set("layouts_enumerated", nlay as u64);
    rep.set("layouts_over_definer_bound_rotations_only", cnt.skipped.load(Ordering::Relaxed));
    rep.set("databases_built", cnt.dbs.load(Ordering::Relaxed));
    rep.set("states", cnt.states.lock().unwrap().len() as u64);
    rep.set(
        "transitions",
        cnt.analyses.load(Ordering::Relaxed) + q,
    );
    rep.set("distinct_nontrivial", cnt.nontrivial.load(Ordering::Relaxed));
    rep.set("traces_validated_against_impl", cnt.handler_calls.load(Ordering::Relaxed));
    rep.set("exhaustive", true);
    rep.set("bounds", json!({"max_depth": max_depth, "max_definers": max_definers, "conftest_kinds": 7, "own_defs": [0,1,2], "distractors": 5}));
    rep.set("rule", "every layout (conftest kind per ancestor level × own definitions × distractor subset) with at most max_definers files defining the name, every permutation of the analysis order of those files, every usage site of every file, every column from one before to one after the token; states = distinct index snapshots, transitions = analyze_file calls + queries; non-trivial = layouts with ≥2 files defining the name; traces_validated = in-process textDocument/definition handler calls compared with the library answer");
    rep.assume("reference model PytestLookup (harness/src/ws.rs) is the oracle; absolute imports in a conftest resolve to the module in the conftest's own directory");
}

