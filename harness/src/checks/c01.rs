//! C01 — fixture resolution follows pytest's shadowing order.
//! Bounded-exhaustive layouts × all registration orders of the definers × every usage kind ×
//! every column, against the `PytestLookup` reference model (ws.rs).

use crate::db::{build_db, hash_lines, index_snapshot, permutations, rel, IndexParts};
use crate::layouts::{classify, Layout};
use crate::lsp::Lsp;
use crate::report::{is_thorough, par_batches, Report};
use crate::ws::{DefId, Rendered, Ws, ROOT};
use serde_json::{json, Value};
use std::collections::HashSet;
use std::sync::atomic::{AtomicU64, Ordering};
use std::sync::{Arc, Mutex};

fn def_loc(r: &Rendered, ws: &Ws, d: DefId) -> (String, usize) {
    let s = r.defs.iter().find(|x| x.id == d).expect("def site");
    (ws.files[d.file].rel.clone(), s.line)
}

fn find_def(r: &Rendered, ws: &Ws, relp: &str, line: usize) -> Option<DefId> {
    r.defs
        .iter()
        .find(|x| ws.files[x.id.file].rel == relp && x.line == line)
        .map(|x| x.id)
}

pub struct Counters {
    pub queries: AtomicU64,
    pub dbs: AtomicU64,
    pub analyses: AtomicU64,
    pub nontrivial: AtomicU64,
    pub skipped: AtomicU64,
    pub handler_calls: AtomicU64,
    pub states: Mutex<HashSet<u64>>,
}
impl Counters {
    pub fn new() -> Self {
        Counters {
            queries: AtomicU64::new(0),
            dbs: AtomicU64::new(0),
            analyses: AtomicU64::new(0),
            nontrivial: AtomicU64::new(0),
            skipped: AtomicU64::new(0),
            handler_calls: AtomicU64::new(0),
            states: Mutex::new(HashSet::new()),
        }
    }
}

pub fn definers(ws: &Ws) -> (Vec<usize>, Vec<usize>) {
    let mut d = Vec::new();
    let mut o = Vec::new();
    for (i, f) in ws.files.iter().enumerate() {
        if f.defines("fx") {
            d.push(i)
        } else {
            o.push(i)
        }
    }
    (d, o)
}

/// Check every usage site × column of one database.  Returns number of queries.
pub fn check_db(
    rep: &Report,
    cnt: &Counters,
    lay: &Layout,
    ws: &Ws,
    r: &Rendered,
    db: &Arc<pytest_language_server::FixtureDatabase>,
    order: &[usize],
) {
    let using = ws.file_index(&lay.using_rel()).unwrap();
    let lsp = Lsp::new(db.clone(), None);
    for (ui, u) in r.usages.iter().enumerate() {
        let expected = ws.expected_for(u);
        let exp_loc = expected.map(|d| def_loc(r, ws, d));
        let path = ws.path(u.file);
        // first registered definition of the name (after the self-exclusion the code applies)
        for col in (u.start - 1)..=(u.end) {
            let inside = col >= u.start && col < u.end;
            let got = db.find_fixture_definition(&path, (u.line - 1) as u32, col as u32);
            cnt.queries.fetch_add(1, Ordering::Relaxed);
            let got_loc = got.as_ref().map(|d| (rel(&d.file_path, ROOT), d.line));
            let ok = if inside {
                got_loc == exp_loc
            } else {
                got_loc.is_none()
            };
            if !ok {
                let e_cls = match (inside, expected) {
                    (false, _) => "outside-token".to_string(),
                    (true, None) => "none".to_string(),
                    (true, Some(d)) => {
                        let c = classify(ws, u.file, d);
                        // relative level is irrelevant for the import branch's root cause
                        if c.starts_with("conftest-import@") {
                            "conftest-import".to_string()
                        } else {
                            c
                        }
                    }
                };
                let g_id = got_loc.as_ref().and_then(|(f, l)| find_def(r, ws, f, *l));
                let g_cls = match (&got_loc, g_id) {
                    (None, _) => "none".to_string(),
                    (Some(_), Some(d)) => {
                        if Some(d)
                            == (if u.kind == crate::ws::UsageKind::FixtureParam {
                                Some(DefId {
                                    file: u.file,
                                    item: u.item,
                                })
                            } else {
                                None
                            })
                            && ws.name_of(d) == u.name
                        {
                            "self".to_string()
                        } else {
                            classify(ws, u.file, d)
                        }
                    }
                    (Some(_), None) => "unknown-location".to_string(),
                };
                // is the wrong answer the first-registered definition of the name?
                let first_reg = db.definitions.get(&u.name).and_then(|v| {
                    v.iter()
                        .find(|d| {
                            // mirror the self-exclusion: a fixture's own parameter skips itself
                            !(u.kind == crate::ws::UsageKind::FixtureParam
                                && rel(&d.file_path, ROOT) == ws.files[u.file].rel
                                && d.line == u.line
                                && d.name == u.name)
                        })
                        .map(|d| (rel(&d.file_path, ROOT), d.line))
                });
                let is_first = got_loc.is_some() && got_loc == first_reg;
                let fp = format!(
                    "expected={} got={} got_is_first_registered={}",
                    e_cls, g_cls, is_first
                );
                let what = format!(
                    "go-to-definition on `{}` ({:?}) in {} line {} col {}: expected {:?}, got {:?}",
                    u.name, u.kind, ws.files[u.file].rel, u.line, col, exp_loc, got_loc
                );
                rep.violation(&fp, &what, || {
                    json!({"layout": lay, "order": order, "usage_index": ui, "col": col,
                           "files": ws.files.iter().map(|f| f.rel.clone()).collect::<Vec<_>>(),
                           "expected": exp_loc, "observed": got_loc})
                });
            }
            // the in-process handler must agree with the library answer (conversion 0/1-based, URI)
            if col == u.start {
                cnt.handler_calls.fetch_add(1, Ordering::Relaxed);
                match lsp.goto_definition(&path, (u.line - 1) as u32, col as u32) {
                    Ok(loc) => {
                        let h = loc.map(|l| {
                            (
                                rel(&crate::lsp::path_of(&l.uri), ROOT),
                                l.range.start.line as usize + 1,
                                l.range.start.character,
                            )
                        });
                        let want = got_loc.clone().map(|(f, l)| (f, l, 0u32));
                        if h != want {
                            rep.violation(
                                "handler-disagrees-with-library",
                                &format!(
                                    "textDocument/definition handler returned {:?}, library {:?}",
                                    h, want
                                ),
                                || json!({"layout": lay, "order": order, "usage_index": ui, "col": col}),
                            );
                        }
                    }
                    Err(p) => {
                        rep.violation(
                            "handler-panic",
                            &format!("definition handler panicked: {}", p),
                            || json!({"layout": lay, "order": order, "usage_index": ui, "col": col}),
                        );
                    }
                }
            }
        }
    }
    let _ = using;
}

pub fn run(rep: &Report) {
    let thorough = is_thorough();
    let max_depth = if thorough { 3 } else { 2 };
    let max_definers = if thorough { 6 } else { 5 };
    let layouts = Layout::enumerate(max_depth, false);
    let cnt = Counters::new();
    let nlay = layouts.len();
    par_batches(&layouts, 32, |i, lay| {
        let ws = lay.to_ws();
        let r = ws.render();
        let (defs, others) = definers(&ws);
        if defs.len() >= 2 {
            cnt.nontrivial.fetch_add(1, Ordering::Relaxed);
        }
        let perms: Vec<Vec<usize>> = if defs.len() > max_definers {
            // above the bound: not all n! orders, but every rotation and its reverse (each definer
            // is registered first and last at least once); counted separately
            cnt.skipped.fetch_add(1, Ordering::Relaxed);
            let n = defs.len();
            let mut v = Vec::new();
            for r in 0..n {
                let rot: Vec<usize> = (0..n).map(|k| (k + r) % n).collect();
                let mut rev = rot.clone();
                rev.reverse();
                v.push(rot);
                v.push(rev);
            }
            v
        } else {
            permutations(defs.len())
        };
        for perm in perms {
            let mut order = others.clone();
            order.extend(perm.iter().map(|&k| defs[k]));
            let db = Arc::new(build_db(&ws, &r, &order, false));
            cnt.dbs.fetch_add(1, Ordering::Relaxed);
            cnt.analyses.fetch_add(order.len() as u64, Ordering::Relaxed);
            let h = hash_lines(&index_snapshot(&db, ROOT, IndexParts::CORE));
            cnt.states.lock().unwrap().insert(h);
            check_db(rep, &cnt, lay, &ws, &r, &db, &order);
        }
        if i % 997 == 0 {
            rep.sample(json!({"layout": lay, "files": ws.files.iter().map(|f| f.rel.clone()).collect::<Vec<_>>()}));
        }
    });
    let q = cnt.queries.load(Ordering::Relaxed);
    rep.set("evaluations", q);
    rep.set("layouts_enumerated", nlay as u64);
    rep.set("layouts_over_definer_bound_rotations_only", cnt.skipped.load(Ordering::Relaxed));
    rep.set("databases_built", cnt.dbs.load(Ordering::Relaxed));
    rep.set("states", cnt.states.lock().unwrap().len() as u64);
    rep.set(
        "transitions",
        cnt.analyses.load(Ordering::Relaxed) + q,
    );
    rep.set("distinct_nontrivial", cnt.nontrivial.load(Ordering::Relaxed));
    rep.set("traces_validated_against_impl", cnt.handler_calls.load(Ordering::Relaxed));
    rep.set("exhaustive", true);
    rep.set("bounds", json!({"max_depth": max_depth, "max_definers": max_definers, "conftest_kinds": 7, "own_defs": [0,1,2], "distractors": 5}));
    rep.set("rule", "every layout (conftest kind per ancestor level × own definitions × distractor subset) with at most max_definers files defining the name, every permutation of the analysis order of those files, every usage site of every file, every column from one before to one after the token; states = distinct index snapshots, transitions = analyze_file calls + queries; non-trivial = layouts with ≥2 files defining the name; traces_validated = in-process textDocument/definition handler calls compared with the library answer");
    rep.assume("reference model PytestLookup (harness/src/ws.rs) is the oracle; absolute imports in a conftest resolve to the module in the conftest's own directory");
}

pub fn replay(case: &Value) {
    let lay: Layout = serde_json::from_value(case["layout"].clone()).expect("layout");
    let order: Vec<usize> = serde_json::from_value(case["order"].clone()).expect("order");
    let ui = case["usage_index"].as_u64().unwrap() as usize;
    let col = case["col"].as_u64().unwrap() as usize;
    let ws = lay.to_ws();
    let r = ws.render();
    for (i, f) in ws.files.iter().enumerate() {
        println!("--- {} (analysis position {:?})\n{}", f.rel, order.iter().position(|&x| x == i), r.texts[i]);
    }
    let db = build_db(&ws, &r, &order, false);
    let u = &r.usages[ui];
    let got = db.find_fixture_definition(&ws.path(u.file), (u.line - 1) as u32, col as u32);
    let exp = ws.expected_for(u).map(|d| def_loc(&r, &ws, d));
    println!(
        "query: {} line {} col {} (`{}`, {:?})\nexpected: {:?}\nobserved: {:?}",
        ws.files[u.file].rel,
        u.line,
        col,
        u.name,
        u.kind,
        exp,
        got.map(|d| (rel(&d.file_path, ROOT), d.line))
    );
}
