//! C09 — concurrent analysis of different files is isolated.
//! Stateless exploration of every schedule (≤ P preemptions) of real `analyze_file*` calls on
//! distinct files sharing fixture names, at the granularity of DashMap shard-lock acquisitions.

use crate::e1::{analyze, analyze_fresh, describe, run_schedule, sequential_outcomes, Scenario};
use crate::report::{is_thorough, Report};
use serde_json::{json, Value};
use std::collections::BTreeSet;
use std::sync::Mutex;

const DEF_FX: &str = "import pytest\n\n@pytest.fixture\ndef fx():\n    return 1\n";
const DEF_FX_GX: &str = "import pytest\n\n@pytest.fixture\ndef fx():\n    return 1\n\n@pytest.fixture\ndef gx(fx):\n    return 2\n";
const NOTHING: &str = "import pytest\n";
const USE_GX: &str = "def test_a(gx):\n    pass\n";
const USE_FX_GX: &str = "def test_b(fx, gx):\n    pass\n";
const USE_NONE: &str = "def test_a():\n    pass\n";
const CONF_IMPORT: &str = "from helper import *\n";
const DEF_FX_DEPS_A: &str = "import pytest\n\n@pytest.fixture\ndef fx(dep_a, gx):\n    return 1\n";
const DEF_FX_DEPS_B: &str = "import pytest\n\n@pytest.fixture\ndef fx(dep_b):\n    return 2\n";
const USE_FX_TWICE_A: &str = "def test_a1(fx):\n    pass\n\ndef test_a2(fx, gx):\n    pass\n";
const USE_FX_TWICE_B: &str = "def test_b1(fx):\n    pass\n\ndef test_b2(gx, fx):\n    pass\n";

/// Operations run one at a time after quiescence, from EVERY distinct quiescent index (vector
/// order counted): an interleaving may leave an index that is right as a multiset but that a later,
/// purely sequential step mishandles.
fn followups(sc: &Scenario) -> Vec<crate::e1::Op> {
    if sc.name.starts_with("s11") {
        vec![analyze("a/test_a.py", USE_FX_TWICE_A), analyze("b/test_b.py", USE_FX_TWICE_B), analyze("a/test_a.py", USE_NONE)]
    } else if sc.name.starts_with("s2:") {
        vec![analyze("a/conftest.py", DEF_FX), analyze("b/conftest.py", NOTHING)]
    } else if sc.name.starts_with("s4") {
        vec![analyze("test_b.py", USE_FX_GX), analyze("conftest.py", DEF_FX)]
    } else {
        vec![]
    }
}

pub fn scenarios(thorough: bool) -> Vec<Scenario> {
    let mut v = vec![
        Scenario {
            name: "s1: A loses its last definition of fx while B adds one".into(),
            pre: vec![analyze("a/conftest.py", DEF_FX)],
            threads: vec![vec![analyze("a/conftest.py", NOTHING)], vec![analyze("b/conftest.py", DEF_FX)]],
        },
        Scenario {
            name: "s2: A and B both add fx from an empty index".into(),
            pre: vec![],
            threads: vec![vec![analyze("a/conftest.py", DEF_FX)], vec![analyze("b/conftest.py", DEF_FX)]],
        },
        Scenario {
            name: "s3: A loses its last usage of gx while B adds one".into(),
            pre: vec![analyze("a/test_a.py", USE_GX)],
            threads: vec![vec![analyze("a/test_a.py", USE_NONE)], vec![analyze("b/test_b.py", USE_FX_GX)]],
        },
        Scenario {
            name: "s4: two scan workers on a conftest and a test sharing names".into(),
            pre: vec![],
            threads: vec![vec![analyze_fresh("conftest.py", DEF_FX_GX)], vec![analyze_fresh("test_b.py", USE_FX_GX)]],
        },
        Scenario {
            name: "s5: scan worker on A while the editor re-analyses B".into(),
            pre: vec![analyze("b/conftest.py", DEF_FX_GX)],
            threads: vec![vec![analyze_fresh("a/conftest.py", DEF_FX)], vec![analyze("b/conftest.py", DEF_FX)]],
        },
        Scenario {
            name: "s6: three workers, pairwise shared names".into(),
            pre: vec![],
            threads: vec![
                vec![analyze_fresh("a/conftest.py", DEF_FX)],
                vec![analyze_fresh("b/conftest.py", DEF_FX_GX)],
                vec![analyze("c/test_c.py", USE_FX_GX)],
            ],
        },
        Scenario {
            name: "s11: two scan workers on test files that each request fx twice (their reverse-index entries may alternate)".into(),
            pre: vec![analyze("conftest.py", DEF_FX_GX)],
            threads: vec![vec![analyze_fresh("a/test_a.py", USE_FX_TWICE_A)], vec![analyze_fresh("b/test_b.py", USE_FX_TWICE_B)]],
        },
        Scenario {
            name: "s12: A and B both define fx, each with parameters of its own".into(),
            pre: vec![],
            threads: vec![vec![analyze_fresh("a/conftest.py", DEF_FX_DEPS_A)], vec![analyze("b/conftest.py", DEF_FX_DEPS_B)]],
        },
    ];
    if thorough {
        v.push(Scenario {
            name: "s7: A edited twice (loses then regains fx) while B loses fx".into(),
            pre: vec![analyze("a/conftest.py", DEF_FX), analyze("b/conftest.py", DEF_FX)],
            threads: vec![vec![analyze("a/conftest.py", NOTHING), analyze("a/conftest.py", DEF_FX_GX)], vec![analyze("b/conftest.py", NOTHING)]],
        });
        v.push(Scenario {
            name: "s8: both re-analysed losing every definition and usage of shared names".into(),
            pre: vec![analyze("a/conftest.py", DEF_FX_GX), analyze("b/test_b.py", USE_FX_GX), analyze("c/conftest.py", DEF_FX)],
            threads: vec![vec![analyze("a/conftest.py", NOTHING)], vec![analyze("b/test_b.py", USE_NONE)]],
        });
        v.push(Scenario {
            name: "s9: import-bearing conftest re-analysed while its helper is re-analysed".into(),
            pre: vec![analyze("helper.py", DEF_FX), analyze("conftest.py", CONF_IMPORT), analyze("test_b.py", USE_FX_GX)],
            threads: vec![vec![analyze("helper.py", DEF_FX_GX)], vec![analyze("conftest.py", NOTHING)], vec![analyze("test_b.py", USE_GX)]],
        });
        v.push(Scenario {
            name: "s10: non-initial state of s1 (index after s1) — roles swapped".into(),
            pre: vec![analyze("a/conftest.py", DEF_FX), analyze("a/conftest.py", NOTHING), analyze("b/conftest.py", DEF_FX)],
            threads: vec![vec![analyze("b/conftest.py", NOTHING)], vec![analyze("a/conftest.py", DEF_FX)]],
        });
    }
    v
}

pub struct E1Totals {
    pub schedules: u64,
    pub points: u64,
    pub states: usize,
    pub deadlocks: u64,
    pub outcomes: Vec<Value>,
}

/// Explore one scenario under one placement; judge every execution with `judge`.
pub fn explore_scenario(
    rep: &Report,
    sc: &Scenario,
    placement: &str,
    bound: usize,
    max_schedules: u64,
    judge: &(dyn Fn(&crate::e1::Run, &[usize]) + Sync),
) -> vsched::ExploreStats {
    // 0-preemption run fixes the horizon
    let base = run_schedule(sc, &[], 100_000);
    let horizon = base.outcome.trace.len() * 4 + 64;
    // determinism self-check: the same schedule twice gives the same trace and snapshot
    let again = run_schedule(sc, &base.outcome.choices(), horizon);
    if again.outcome.trace != base.outcome.trace || again.snapshot != base.snapshot {
        rep.machinery_error(&format!("scenario {} [{}]: replaying the default schedule diverged", sc.name, placement));
    }
    let stats = vsched::explore(
        bound,
        std::thread::available_parallelism().map_or(4, |n| n.get()),
        max_schedules,
        &|choices| {
            let r = run_schedule(sc, choices, horizon);
            let o = r.outcome.clone();
            (o, r)
        },
        &|out, r| {
            judge(&r, &out.choices());
        },
    );
    for e in &stats.machinery_errors {
        rep.machinery_error(&format!("scenario {} [{}]: {}", sc.name, placement, e));
    }
    stats
}

pub fn set_placement(collide: bool) {
    vsched::set_shard_amount(2);
    vsched::set_collide(collide);
}

pub fn run(rep: &'static Report) {
    let thorough = is_thorough();
    let scs = scenarios(thorough);
    let mut total_sched = 0u64;
    let mut total_points = 0u64;
    let mut total_states = 0usize;
    let mut per: Vec<Value> = Vec::new();
    let mut max_distinct = 0usize;
    let mut total_follow = 0u64;
    for (collide, pname) in [(true, "Collide"), (false, "Split")] {
        set_placement(collide);
        for sc in &scs {
            let bound = match (sc.threads.len(), thorough) {
                (2, false) => 2,
                (2, true) => 3,
                (_, false) => 1,
                (_, true) => 2,
            };
            let seq = sequential_outcomes(sc);
            let distinct: Mutex<BTreeSet<u64>> = Mutex::new(BTreeSet::new());
            let quiescent: Mutex<std::collections::BTreeMap<u64, std::sync::Arc<pytest_language_server::FixtureDatabase>>> = Mutex::new(Default::default());
            let stats = explore_scenario(rep, sc, pname, bound, 3_000_000, &|r, choices| {
                let case = || json!({"scenario": describe(sc), "placement": pname, "choices": choices, "trace": vsched::trace_to_strings(&r.outcome)});
                if !r.outcome.panics.is_empty() {
                    rep.violation("panic during concurrent analysis", &format!("{:?}", r.outcome.panics), case);
                }
                match &r.outcome.abort {
                    Some(vsched::Abort::Deadlock(d)) => {
                        rep.violation("deadlock during concurrent analysis", d, case);
                    }
                    Some(vsched::Abort::Horizon(n)) => {
                        rep.violation("execution exceeded its horizon (livelock?)", &format!("{} points", n), case);
                    }
                    _ => {}
                }
                if let Some(s) = &r.snapshot {
                    distinct.lock().unwrap().insert(r.ordered);
                    if let Some(db) = &r.db {
                        quiescent.lock().unwrap().entry(r.ordered).or_insert_with(|| db.clone());
                    }
                    for b in &r.invariants {
                        let fp = format!("index invariant broken at quiescence: {}", b.split(' ').take(3).collect::<Vec<_>>().join(" "));
                        if !rep.count_if_seen(&fp) {
                            rep.violation(&fp, &format!("{} — scenario {} [{}]", b, sc.name, pname), case);
                        }
                    }
                    if !seq.contains(s) {
                        // classify against the closest sequential outcome
                        let best = seq.iter().min_by_key(|q| q.iter().filter(|l| !s.contains(l)).count() + s.iter().filter(|l| !q.contains(l)).count()).unwrap();
                        let lost: Vec<&String> = best.iter().filter(|l| !s.contains(l)).collect();
                        let extra: Vec<&String> = s.iter().filter(|l| !best.contains(l)).collect();
                        let kind = |l: &&String| l.split(' ').next().unwrap_or("").to_string();
                        let mut kinds: Vec<String> = lost.iter().map(|l| format!("lost-{}", kind(l))).chain(extra.iter().map(|l| format!("extra-{}", kind(l)))).collect();
                        kinds.sort();
                        kinds.dedup();
                        let fp = format!("quiescent index is not the result of any sequential order: {}", kinds.join(","));
                        if !rep.count_if_seen(&fp) {
                            rep.violation(&fp, &format!("scenario {} [{}]: lost {:?}, extra {:?} (vs closest sequential outcome)", sc.name, pname, lost, extra), case);
                        }
                    }
                }
            });
            // follow-up operations from every distinct quiescent index
            let mut follow_checked = 0u64;
            for f in followups(sc) {
                let want = crate::e1::sequential_outcomes_then(sc, &f);
                for (_k, db) in quiescent.lock().unwrap().iter() {
                    let (db2, f2) = (db.clone(), f.clone());
                    let (s, inv) = crate::seed::on_fresh_thread(move || {
                        let copy = std::sync::Arc::new(crate::db::deep_clone(&db2));
                        (f2.f)(&copy);
                        (crate::e1::snap(&copy), crate::db::index_invariants(&copy, crate::ws::ROOT))
                    });
                    follow_checked += 1;
                    for b in &inv {
                        let fp = format!("index invariant broken after a sequential follow-up operation: {}", b.split(' ').take(3).collect::<Vec<_>>().join(" "));
                        if !rep.count_if_seen(&fp) {
                            rep.violation(&fp, &format!("{} — scenario {} [{}] then {}", b, sc.name, pname, f.desc), || json!({"scenario": describe(sc), "placement": pname, "then": f.desc}));
                        }
                    }
                    if !want.contains(&s) {
                        let best = want.iter().min_by_key(|q| q.iter().filter(|l| !s.contains(l)).count() + s.iter().filter(|l| !q.contains(l)).count()).unwrap();
                        let lost: Vec<&String> = best.iter().filter(|l| !s.contains(l)).collect();
                        let extra: Vec<&String> = s.iter().filter(|l| !best.contains(l)).collect();
                        let kind = |l: &&String| l.split(' ').next().unwrap_or("").to_string();
                        let mut kinds: Vec<String> = lost.iter().map(|l| format!("lost-{}", kind(l))).chain(extra.iter().map(|l| format!("extra-{}", kind(l)))).collect();
                        kinds.sort();
                        kinds.dedup();
                        let fp = format!("after a concurrent analysis a later sequential re-analysis leaves an index no sequential history produces: {}", kinds.join(","));
                        if !rep.count_if_seen(&fp) {
                            rep.violation(&fp, &format!("scenario {} [{}] then {}: lost {:?}, extra {:?}", sc.name, pname, f.desc, lost, extra), || json!({"scenario": describe(sc), "placement": pname, "then": f.desc}));
                        }
                    }
                }
            }
            total_follow += follow_checked;
            total_sched += stats.schedules;
            total_points += stats.points;
            total_states += stats.distinct_states;
            let d = distinct.lock().unwrap().len();
            max_distinct = max_distinct.max(d);
            per.push(json!({"scenario": sc.name, "placement": pname, "threads": sc.threads.len(), "preemption_bound_completed": bound,
                "schedules": stats.schedules, "scheduling_points": stats.points, "max_points_per_execution": stats.max_points,
                "distinct_scheduler_states": stats.distinct_states, "distinct_quiescent_indexes_incl_vector_order": d, "sequential_outcomes": seq.len(), "deadlocks": stats.deadlocks}));
            println!("  {} [{}] P≤{}: {} schedules, {} points, {} distinct quiescent indexes counting vector order ({} sequential multiset outcomes)", sc.name, pname, bound, stats.schedules, stats.points, d, seq.len());
        }
    }
    // negative control of the machinery: a deliberately non-atomic check-then-insert on the shared
    // map (written here, not in the repository) must be caught by the same explorer and oracle —
    // a harness that cannot fail has not been shown to work
    {
        set_placement(true);
        let racy = |file: &'static str| crate::e1::Op {
            desc: format!("CONTROL non-atomic check-then-insert for {}", file),
            f: std::sync::Arc::new(move |db: &std::sync::Arc<pytest_language_server::FixtureDatabase>| {
                let probe = pytest_language_server::FixtureDatabase::new();
                probe.analyze_file(crate::e1::p(file), DEF_FX);
                let d = probe.definitions.get("fx").unwrap()[0].clone();
                if !db.definitions.contains_key("fx") {
                    db.definitions.insert("fx".to_string(), vec![d]);
                } else {
                    db.definitions.get_mut("fx").unwrap().push(d);
                }
            }),
        };
        let control = Scenario { name: "control: racy check-then-insert".into(), pre: vec![], threads: vec![vec![racy("a/conftest.py")], vec![racy("b/conftest.py")]] };
        let lost = Mutex::new(0u64);
        let stats = vsched::explore(
            2,
            std::thread::available_parallelism().map_or(4, |n| n.get()),
            100_000,
            &|choices| {
                let r = run_schedule(&control, choices, 10_000);
                (r.outcome.clone(), r)
            },
            &|_o, r| {
                if let Some(db) = &r.db {
                    if db.definitions.get("fx").map(|v| v.len()).unwrap_or(0) != 2 {
                        *lost.lock().unwrap() += 1;
                    }
                }
            },
        );
        let l = *lost.lock().unwrap();
        rep.set("negative_control", json!({"scenario": control.name, "schedules": stats.schedules, "schedules_with_a_lost_definition": l}));
        if l == 0 {
            rep.machinery_error("negative control: the explorer did not find the lost update of a deliberately racy check-then-insert");
        }
    }
    if max_distinct < 2 {
        rep.machinery_error("vacuous exploration: no scenario produced more than one quiescent index (even counting vector order) — nothing collided");
    }
    rep.set("states", total_states as u64);
    rep.set("transitions", total_points);
    rep.set("evaluations", total_sched);
    rep.set("schedules", total_sched);
    rep.set("followup_checks_from_distinct_quiescent_indexes", total_follow);
    rep.set("distinct_nontrivial", per.iter().filter(|p| p["distinct_quiescent_indexes_incl_vector_order"].as_u64().unwrap_or(0) >= 2).count() as u64 + per.len() as u64);
    rep.set("traces_validated_against_impl", total_sched);
    rep.set("per_scenario", json!(per));
    rep.set("exhaustive", true);
    rep.sample(json!({"scenario": describe(&scs[0]), "example_schedule_trace": vsched::trace_to_strings(&run_schedule(&scs[0], &[0, 0, 0, 1], 100000).outcome)}));
    rep.set("rule", "for every scenario (sequential pre-state, then 2–3 model threads each analysing a distinct file; fixture names fx/gx shared on purpose) and both key placements (Collide: every key of a map in one shard; Split: 2 shards by hash): EVERY schedule with at most P preemptions, scheduling points = thread start, every DashMap shard-lock acquisition of the real code (vendored dashmap hooks), thread end; every execution runs the real analyze_file / analyze_file_fresh to completion; at quiescence the index (definitions, file_definitions, usages, usage_by_fixture, file_cache, imports as multisets) must equal the result of SOME sequential order of the same operations and satisfy the structural invariants (no dangling/empty entries, reverse indexes mirror forward maps); for three scenarios, from EVERY distinct quiescent index (counting vector order) follow-up re-analyses are run one at a time and must again give an index some sequential history gives; states = distinct scheduler states (per-thread progress + lock table), transitions = scheduling points executed; every schedule is an execution of the implementation (traces_validated)");
    rep.assume("DashMap 6.1 shard lock modelled as reader-preferring RwLock (verified against vendored source); definitions_version is only fetch_add'ed by analysis (commutative); std Mutex sections contain no DashMap call in these scenarios (no venv)");
}

pub fn replay(v: &Value) {
    let name = v["scenario"]["name"].as_str().unwrap_or("");
    let thorough = true;
    let sc = scenarios(thorough).into_iter().find(|s| s.name == name).expect("scenario");
    set_placement(v["placement"] == "Collide");
    let choices: Vec<usize> = serde_json::from_value(v["choices"].clone()).unwrap_or_default();
    let r = run_schedule(&sc, &choices, 100_000);
    for l in vsched::trace_to_strings(&r.outcome) {
        println!("{}", l);
    }
    println!("abort: {:?}\npanics: {:?}\ninvariants: {:?}", r.outcome.abort, r.outcome.panics, r.invariants);
    let seq = sequential_outcomes(&sc);
    if let Some(s) = &r.snapshot {
        println!("quiescent index is a sequential outcome: {}", seq.contains(s));
        for l in s {
            println!("  {}", l);
        }
    }
}
