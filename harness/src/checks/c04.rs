//! C04 — find-references is the exact inverse of go-to-definition (model-free cross-check on
//! every index reached by the C01/C02 enumerations and the C06 history graph).

use crate::checks::wscheck::{for_each_db, Counters};
use crate::db::{def_key, rel};
use crate::lsp::Lsp;
use crate::report::{is_thorough, Report};
use pytest_language_server::{FixtureDatabase, FixtureDefinition};
use serde_json::{json, Value};
use std::collections::BTreeMap;
use std::path::PathBuf;
use std::sync::atomic::Ordering;
use std::sync::Arc;

/// The model-free oracle on one database.  `root` is only used to print relative paths.
pub fn check_inverse(
    rep: &Report,
    cnt: &Counters,
    case: &Value,
    root: &str,
    db: &Arc<FixtureDatabase>,
    with_handlers: bool,
    stale_text_files: &[PathBuf],
) {
    // all definitions / usages
    let mut defs: Vec<FixtureDefinition> = Vec::new();
    for e in db.definitions.iter() {
        for d in e.value() {
            defs.push(d.clone());
        }
    }
    defs.sort_by_key(|d| def_key(d, root));
    let mut usages: Vec<(PathBuf, String, usize, usize, usize)> = Vec::new();
    for e in db.usages.iter() {
        // usages of a document whose current text is unparsable are positions in its last valid
        // version; asking go-to-definition there is meaningless (C06 scope) — skipped
        if stale_text_files.contains(e.key()) {
            continue;
        }
        for u in e.value() {
            usages.push((e.key().clone(), u.name.clone(), u.line, u.start_char, u.end_char));
        }
    }
    usages.sort();
    // goto for every usage at every column (must be column-independent inside the token)
    let mut goto: Vec<Option<FixtureDefinition>> = Vec::new();
    for (p, name, line, s, e) in &usages {
        let mut first: Option<Option<FixtureDefinition>> = None;
        for c in *s..(*e).max(*s + 1) {
            let g = db.find_fixture_definition(p, (*line as u32).saturating_sub(1), c as u32);
            cnt.queries.fetch_add(1, Ordering::Relaxed);
            match &first {
                None => first = Some(g),
                Some(f0) => {
                    // identity = where the definition lives (never the crate's own `==`)
                    if f0.as_ref().map(|x| def_key(x, root)) != g.as_ref().map(|x| def_key(x, root)) {
                        rep.violation(
                            "goto-depends-on-column-inside-token",
                            &format!("go-to-definition on `{}` in {} line {} differs between columns", name, rel(p, root), line),
                            || json!({"case": case, "query": {"kind": "goto", "file": rel(p, root), "line": line, "col": c}}),
                        );
                    }
                }
            }
        }
        goto.push(first.unwrap_or(None));
    }
    // references per definition
    let mut listed: Vec<u32> = vec![0; usages.len()];
    for d in &defs {
        let refs = db.find_references_for_definition(d);
        cnt.queries.fetch_add(1, Ordering::Relaxed);
        let mut seen: BTreeMap<(PathBuf, usize, usize), u32> = BTreeMap::new();
        for u in &refs {
            *seen.entry((u.file_path.clone(), u.line, u.start_char)).or_insert(0) += 1;
        }
        for ((p, l, s), n) in &seen {
            // a usage listed twice: only a violation if it is recorded once
            let recorded = usages
                .iter()
                .filter(|(up, _, ul, us, _)| up == p && ul == l && us == s)
                .count() as u32;
            if *n > recorded.max(1) {
                rep.violation(
                    "usage-listed-twice",
                    &format!("references of {} list {}:{}:{} {} times (recorded {} time(s))", def_key(d, root), rel(p, root), l, s, n, recorded),
                    || json!({"case": case, "query": {"kind": "references", "file": rel(&d.file_path, root), "line": d.line, "col": d.start_char}}),
                );
            }
        }
        for (i, (p, name, line, s, _e)) in usages.iter().enumerate() {
            let in_refs = seen.contains_key(&(p.clone(), *line, *s)) && *name == d.name;
            let resolves = goto[i].as_ref().map(|g| def_key(g, root)) == Some(def_key(d, root));
            if in_refs {
                listed[i] += 1;
            }
            if in_refs != resolves {
                let fp = if resolves {
                    "usage-resolves-to-D-but-not-in-references"
                } else {
                    "usage-in-references-but-resolves-elsewhere"
                };
                rep.violation(
                    fp,
                    &format!(
                        "definition {}; usage `{}` at {}:{}:{}; in references: {}, go-to-definition -> {:?}",
                        def_key(d, root), name, rel(p, root), line, s, in_refs,
                        goto[i].as_ref().map(|g| def_key(g, root))
                    ),
                    || json!({"case": case, "query": {"kind": "goto", "file": rel(p, root), "line": line, "col": s},
                              "expected": format!("in references of {} <=> resolves to it", def_key(d, root)),
                              "observed": {"in_references": in_refs, "resolves_to": goto[i].as_ref().map(|g| def_key(g, root))}}),
                );
            }
        }
    }
    for (i, (p, name, line, s, _)) in usages.iter().enumerate() {
        if goto[i].is_none() && listed[i] > 0 {
            rep.violation(
                "unresolved-usage-listed",
                &format!("usage `{}` at {}:{}:{} resolves to nothing but is listed", name, rel(p, root), line, s),
                || json!({"case": case}),
            );
        }
    }
    // reverse index mirrors usages
    for b in crate::db::index_invariants(db, root) {
        let fp = format!("index-invariant: {}", b.split(' ').take(3).collect::<Vec<_>>().join(" "));
        rep.violation(&fp, &b, || json!({"case": case}));
    }
    // the counters derived from the same set
    if with_handlers {
        let lsp = Lsp::new(db.clone(), None);
        let mut files: Vec<PathBuf> = defs.iter().map(|d| d.file_path.clone()).collect();
        files.sort();
        files.dedup();
        for f in &files {
            let lenses = match lsp.code_lens(f) {
                Ok(l) => l.unwrap_or_default(),
                Err(p) => {
                    rep.violation("code-lens-panic", &p, || json!({"case": case}));
                    continue;
                }
            };
            cnt.handler_calls.fetch_add(1, Ordering::Relaxed);
            for d in defs.iter().filter(|d| &d.file_path == f && !d.is_third_party) {
                let n = db.find_references_for_definition(d).len();
                let want_title = if n == 1 { "1 usage".to_string() } else { format!("{} usages", n) };
                let titles: Vec<String> = lenses
                    .iter()
                    .filter(|l| l.range.start.line as usize + 1 == d.line)
                    .filter_map(|l| l.command.as_ref().map(|c| c.title.clone()))
                    .collect();
                // several definitions may share a line only in degenerate inputs; require presence
                if !titles.contains(&want_title) {
                    rep.violation(
                        "code-lens-count-differs-from-references",
                        &format!("code lens for {} shows {:?}, references has {}", def_key(d, root), titles, n),
                        || json!({"case": case, "query": {"kind": "codeLens", "file": rel(f, root), "line": d.line, "col": 0}}),
                    );
                }
            }
        }
        for d in &defs {
            let refs = db.find_references_for_definition(d);
            let want = refs
                .iter()
                .filter(|u| !(u.file_path == d.file_path && u.line == d.line))
                .count();
            // the item the server itself hands out for this definition
            let item = match lsp.prepare_call_hierarchy(&d.file_path, (d.line - 1) as u32, d.start_char as u32) {
                Ok(Some(v)) if v.len() == 1 => v.into_iter().next().unwrap(),
                Ok(other) => {
                    // not navigable from its own name token: judged by C02/C15, skip here
                    let _ = other;
                    continue;
                }
                Err(p) => {
                    rep.violation("prepare-panic", &p, || json!({"case": case}));
                    continue;
                }
            };
            if item.selection_range.start.line as usize + 1 != d.line
                || crate::lsp::path_of(&item.uri) != d.file_path
            {
                continue; // prepare answered for another definition (judged by C02/C05)
            }
            cnt.handler_calls.fetch_add(1, Ordering::Relaxed);
            match lsp.incoming_calls(item) {
                Ok(inc) => {
                    let got = inc.map(|v| v.len());
                    if got != Some(want) {
                        // same-named definitions in one file share (name, uri) in the item
                        let dup = defs
                            .iter()
                            .filter(|x| x.file_path == d.file_path && x.name == d.name)
                            .count()
                            > 1;
                        rep.violation(
                            &format!("incoming-calls-count-differs-from-references dup_name_in_file={}", dup),
                            &format!("incoming calls for {}: {:?}, references (minus own line) {}", def_key(d, root), got, want),
                            || json!({"case": case, "query": {"kind": "prepare", "file": rel(&d.file_path, root), "line": d.line, "col": d.start_char}}),
                        );
                    }
                }
                Err(p) => {
                    rep.violation("incoming-panic", &p, || json!({"case": case}));
                }
            }
        }
    }
}

pub fn run(rep: &'static Report) {
    let thorough = is_thorough();
    let cnt: &'static Counters = Box::leak(Box::new(Counters::new()));
    let desc = for_each_db(
        false,
        if thorough { 3 } else { 2 },
        if thorough { 5 } else { 4 },
        if thorough { 3 } else { 2 },
        4,
        cnt,
        &|case, _ws, _r, db| check_inverse(rep, cnt, case, crate::ws::ROOT, db, true, &[]),
    );
    // history states (C06 graph)
    let f: &'static (dyn Fn(&Value, &Arc<FixtureDatabase>) + Send + Sync) =
        Box::leak(Box::new(move |case: &Value, db: &Arc<FixtureDatabase>| {
            let stale: Vec<PathBuf> = case["invalid_files"]
                .as_array()
                .map(|a| a.iter().filter_map(|x| x.as_str()).map(|x| PathBuf::from(format!("{}/{}", crate::ws::ROOT, x))).collect())
                .unwrap_or_default();
            check_inverse(rep, cnt, case, crate::ws::ROOT, db, true, &stale)
        }));
    let hist = crate::checks::c06::explore_for(rep, cnt, if thorough { 4 } else { 3 }, f);
    let cli = crate::checks::c20::cli_counts_subset(rep, if thorough { 400 } else { 60 });
    for smp in cnt.samples.lock().unwrap().iter().take(3) {
        rep.sample(smp.clone());
    }
    let q = cnt.queries.load(Ordering::Relaxed);
    rep.set("evaluations", q);
    rep.set("enumeration", desc);
    rep.set("history_graph", hist);
    rep.set("cli_count_comparisons", cli);
    rep.set("databases_built", cnt.dbs.load(Ordering::Relaxed));
    rep.set("states", cnt.states.lock().unwrap().len() as u64);
    rep.set("transitions", cnt.analyses.load(Ordering::Relaxed) + q);
    rep.set("distinct_nontrivial", cnt.nontrivial.load(Ordering::Relaxed));
    rep.set("traces_validated_against_impl", cnt.handler_calls.load(Ordering::Relaxed));
    rep.set("exhaustive", true);
    rep.set("rule", "every database of the C01 layout and C02 chain enumerations (all registration orders within the definer bound) and every state of the C06 edit-history graph; in each, every (definition, usage) pair: U ∈ references(D) ⇔ go-to-definition(U)=D at every column of U; no duplicates; unresolved usages unlisted; reverse usage index mirrors usages; code-lens count, incoming-call count (plus documented own-line skip) and CLI `fixtures list` count equal |references(D)|; non-trivial = workspaces with ≥2 files defining the name");
    rep.assume("no reference model: pure cross-check between the resolver, the reference finder, the handlers and the CLI");
}
