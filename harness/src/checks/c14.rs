//! C14 — imported and plugin fixtures are discovered transitively and classified.
//! (i) bounded-exhaustive import graphs on tmpfs (real scan) against the reachability model;
//! (ii) product of virtualenv layouts against the classification model.

use crate::db::{def_key, rel};
use crate::e5::{materialize, write_file, Scratch};
use crate::lsp::Lsp;
use crate::report::{is_thorough, par_batches, Report};
use crate::ws::{FileSpec, Item, Ws};
use pytest_language_server::FixtureDatabase;
use serde::Serialize;
use serde_json::json;
use std::collections::BTreeSet;
use std::path::Path;
use std::sync::atomic::{AtomicU64, Ordering};
use std::sync::Arc;

// ------------------------------------------------------------------ (i) import graphs

const NODES: [&str; 4] = ["conftest.py", "m1.py", "m2.py", "pkg/m3.py"];
/// the same graph with helper modules named like standard-library modules (relative spelling only:
/// `from .http import *` can only mean the local module)
const NODES_STDLIB_LIKE: [&str; 4] = ["conftest.py", "http.py", "types.py", "pkg/email.py"];
fn nodes(stdlib_like: bool) -> [&'static str; 4] {
    if stdlib_like {
        NODES_STDLIB_LIKE
    } else {
        NODES
    }
}
const FX: [&str; 4] = ["c0", "f1", "f2", "f3"];

#[derive(Clone, Copy, Debug, Serialize, PartialEq)]
pub enum Kind {
    Star,
    Explicit,
    /// `from m import f1, f2, f3`: every fixture name, whether the target defines it, re-exports it or neither
    ExplicitAll,
    Plugins,
    /// `pytest_plugins = ["<decoy>"]` followed by a second assignment that wins
    PluginsOverwritten,
}

#[derive(Clone, Debug, Serialize)]
pub struct ImportGraph {
    /// (source node — 4 is the test module test_x.py itself —, target helper 1..=3, kind)
    pub edges: Vec<(usize, usize, Kind)>,
    pub relative: bool,
    #[serde(default)]
    pub stdlib_like_names: bool,
    /// every import statement sits inside `try: … except ImportError: pass`
    #[serde(default)]
    pub guarded: bool,
    /// a package `m1/` (with an __init__.py defining `f1` and `shared`) exists beside the module m1.py:
    /// `import m1` means the package
    #[serde(default)]
    pub package_beside_module: bool,
}

fn module_name(src: usize, dst: usize, relative: bool, stdlib_like: bool) -> String {
    let abs = if stdlib_like { ["", "http", "types", "pkg.email"][dst] } else { ["", "m1", "m2", "pkg.m3"][dst] };
    if !relative {
        return abs.to_string();
    }
    // relative spelling from the source's package
    if src == 3 {
        // inside pkg/ (source 4, the test module, sits in the root directory like conftest.py)
        match dst {
            3 => if stdlib_like { ".email".to_string() } else { ".m3".to_string() },
            _ => format!("..{}", abs),
        }
    } else {
        format!(".{}", abs)
    }
}

impl ImportGraph {
    pub fn to_ws(&self) -> Ws {
        // every helper module also defines `shared`: which one a file provides after importing several of them
        // is decided by the order of its import statements (the last binding wins)
        let mut files: Vec<FileSpec> = nodes(self.stdlib_like_names).iter().enumerate().map(|(i, n)| FileSpec::new(n, if i == 0 { vec![Item::fixture(FX[i], &[])] } else { vec![Item::fixture(FX[i], &[]), Item::fixture("shared", &[])] })).collect();
        for src in 0..4 {
            // plugin declarations of one module are merged into one assignment (several edges)
            let mut plugins: Vec<String> = Vec::new();
            let mut overwritten = false;
            for (s, d, k) in &self.edges {
                if *s != src {
                    continue;
                }
                let m = module_name(*s, *d, self.relative && !matches!(k, Kind::Plugins | Kind::PluginsOverwritten), self.stdlib_like_names);
                match k {
                    Kind::Star => files[src].items.insert(0, Item::StarImport { module: m }),
                    Kind::Explicit => files[src].items.insert(0, Item::ExplicitImport { module: m, names: vec![FX[*d].to_string()] }),
                    Kind::ExplicitAll => files[src].items.insert(0, Item::ExplicitImport { module: m, names: vec!["f1".into(), "f2".into(), "f3".into()] }),
                    Kind::Plugins => plugins.push(m),
                    Kind::PluginsOverwritten => {
                        overwritten = true;
                        plugins.push(m)
                    }
                }
            }
            if overwritten {
                files[src].items.push(Item::PytestPlugins { modules: vec!["decoy_mod".into()] });
            }
            if !plugins.is_empty() {
                files[src].items.push(Item::PytestPlugins { modules: plugins });
            }
        }
        files.push(FileSpec::new("pkg/__init__.py", vec![]));
        files.push(FileSpec::new("decoy_mod.py", vec![Item::fixture("decoy_fx", &[])]));
        // the test module may import fixtures itself: they become fixtures of that module
        let mut test_items = vec![Item::test("t", &["c0", "f1", "f2", "f3", "decoy_fx", "shared"])];
        for (s, d, k) in &self.edges {
            if *s != 4 {
                continue;
            }
            let m = module_name(4, *d, self.relative, self.stdlib_like_names);
            match k {
                Kind::Star => test_items.insert(0, Item::StarImport { module: m }),
                Kind::Explicit => test_items.insert(0, Item::ExplicitImport { module: m, names: vec![FX[*d].to_string()] }),
                _ => test_items.insert(0, Item::ExplicitImport { module: m, names: vec!["f1".into(), "f2".into(), "f3".into()] }),
            }
        }
        files.push(FileSpec::new("test_x.py", test_items));
        if self.package_beside_module {
            files.push(FileSpec::new("m1/__init__.py", vec![Item::fixture("f1", &[]), Item::fixture("shared", &[])]));
        }
        if self.guarded {
            for f in files.iter_mut() {
                f.guarded_imports = true;
            }
        }
        Ws { files }
    }
}

fn enumerate_graphs(max_edges: usize) -> Vec<ImportGraph> {
    let slots: Vec<(usize, usize)> = (0..4).flat_map(|s| (1..4).map(move |d| (s, d))).collect();
    let kinds = [Kind::Star, Kind::Explicit, Kind::ExplicitAll, Kind::Plugins, Kind::PluginsOverwritten];
    let mut out = Vec::new();
    fn rec(slots: &[(usize, usize)], kinds: &[Kind], start: usize, cur: &mut Vec<(usize, usize, Kind)>, max: usize, out: &mut Vec<ImportGraph>) {
        for relative in [false, true] {
            out.push(ImportGraph { edges: cur.clone(), relative, stdlib_like_names: false, guarded: false, package_beside_module: false });
        }
        if !cur.is_empty() && cur.iter().all(|e| !matches!(e.2, Kind::Plugins | Kind::PluginsOverwritten)) {
            out.push(ImportGraph { edges: cur.clone(), relative: true, stdlib_like_names: true, guarded: false, package_beside_module: false });
        }
        if cur.len() == max {
            return;
        }
        for i in start..slots.len() {
            for k in kinds {
                // one overwritten-plugins edge per source is enough
                cur.push((slots[i].0, slots[i].1, *k));
                rec(slots, kinds, i + 1, cur, max, out);
                cur.pop();
            }
        }
    }
    rec(&slots, &kinds, 0, &mut Vec::new(), max_edges, &mut out);
    // graphs of star / explicit imports once more with every import statement guarded by try / except ImportError
    let guarded: Vec<ImportGraph> = out.iter().filter(|g| !g.edges.is_empty() && !g.stdlib_like_names && g.edges.len() < max_edges && g.edges.iter().all(|e| matches!(e.2, Kind::Star | Kind::Explicit))).cloned().collect();
    for mut g in guarded {
        g.guarded = true;
        out.push(g);
    }
    // graphs with an edge to m1 once more with a package m1/ beside the module m1.py
    let clash: Vec<ImportGraph> = out.iter().filter(|g| !g.stdlib_like_names && !g.guarded && g.edges.len() < max_edges && g.edges.iter().any(|e| e.1 == 1)).cloned().collect();
    for mut g in clash {
        g.package_beside_module = true;
        out.push(g);
    }
    // the test module imports from a helper itself (one such edge, every kind of import statement),
    // on top of every graph with up to max_edges - 1 other edges
    let base: Vec<ImportGraph> = out.iter().filter(|g| g.edges.len() < max_edges && !g.stdlib_like_names).cloned().collect();
    for g in base {
        for d in 1..4 {
            for k in [Kind::Star, Kind::Explicit, Kind::ExplicitAll] {
                let mut e = g.edges.clone();
                e.push((4, d, k));
                out.push(ImportGraph { edges: e, relative: g.relative, stdlib_like_names: false, guarded: false, package_beside_module: false });
            }
        }
    }
    out
}

fn check_graph(rep: &Report, g: &ImportGraph, scans: &AtomicU64) {
    let ws = g.to_ws();
    let r = ws.render();
    let sc = Scratch::new("c14");
    materialize(&ws, &r, sc.path());
    let root = sc.path().to_string_lossy().to_string();
    let db = Arc::new(FixtureDatabase::new());
    db.scan_workspace(sc.path());
    scans.fetch_add(1, Ordering::Relaxed);
    let test = ws.file_index("test_x.py").unwrap();
    let tpath = ws.path_in(&root, test);
    let case = || json!({"graph": g, "files": ws.files.iter().enumerate().map(|(i, f)| json!({"path": f.rel, "text": r.texts[i]})).collect::<Vec<_>>()});
    let kinds: BTreeSet<String> = g.edges.iter().map(|e| format!("{:?}", e.2)).collect();
    let ctx = format!("edge kinds {:?}, {} spelling{}", kinds, if g.relative { "relative" } else { "absolute" }, if g.stdlib_like_names { ", modules named like standard-library modules" } else if g.guarded { ", imports inside try / except ImportError" } else if g.package_beside_module { ", package m1/ beside module m1.py" } else { "" });
    // resolver walk: go-to-definition of each name from the test file
    let mut visible_model: BTreeSet<String> = BTreeSet::new();
    for u in r.usages.iter().filter(|u| u.file == test) {
        let want = ws.expected_for(u).map(|d| {
            let s = r.defs.iter().find(|x| x.id == d).unwrap();
            format!("{}:{}:{}", ws.files[d.file].rel, s.line, u.name)
        });
        if want.is_some() {
            visible_model.insert(u.name.clone());
        }
        let got = db.find_fixture_definition(&tpath, (u.line - 1) as u32, u.start as u32).map(|d| def_key(&d, &root));
        if got != want {
            let cls = match (&want, &got) {
                (Some(_), None) => "reachable fixture not resolved",
                (None, Some(_)) => "unreachable fixture resolved",
                _ => "resolved to another module's definition",
            };
            let fp = format!("imports: {} [{}]", cls, ctx);
            if !rep.count_if_seen(&fp) {
                rep.violation(&fp, &format!("`{}` from test_x.py: model {:?}, go-to-definition {:?}; graph {:?}", u.name, want, got, g), case);
            }
        }
    }
    // completion walk: the per-file view
    let avail: BTreeSet<String> = db.get_available_fixtures(&tpath).iter().map(|d| d.name.clone()).collect();
    if avail != visible_model {
        let fp = format!("imports: available-fixtures view differs from the reachable set [{}]", ctx);
        if !rep.count_if_seen(&fp) {
            rep.violation(&fp, &format!("available {:?}, model {:?}; graph {:?}", avail, visible_model, g), case);
        }
    }
    // scanner walk: every module reachable through imports from conftest/test files is analysed,
    // and from the module that defines it
    let mut reach: BTreeSet<usize> = [0usize, 4usize].into_iter().collect();
    loop {
        let mut grew = false;
        for (s, d, _k) in &g.edges {
            // with a package m1/ beside m1.py an import of m1 means the package (no onward imports): the
            // module m1.py and what only it imports are not reached
            if g.package_beside_module && *d == 1 {
                continue;
            }
            if reach.contains(s) && !reach.contains(d) {
                reach.insert(*d);
                grew = true;
            }
        }
        if !grew {
            break;
        }
    }
    for n in (if g.package_beside_module { 2 } else { 1 })..4 {
        let analysed = db.file_definitions.contains_key(&sc.path().join(nodes(g.stdlib_like_names)[n]));
        if reach.contains(&n) != analysed {
            let fp = format!("imports: module {} by the scan [{}]", if analysed { "analysed although nothing imports it" } else { "reachable through imports but not analysed" }, ctx);
            if !rep.count_if_seen(&fp) {
                rep.violation(&fp, &format!("{}: reachable {}, analysed {}; graph {:?}", nodes(g.stdlib_like_names)[n], reach.contains(&n), analysed, g), case);
            }
        }
    }
    // defining module
    for e in db.definitions.iter() {
        for d in e.value() {
            let want_file = FX.iter().position(|f| *f == d.name).map(|i| nodes(g.stdlib_like_names)[i]).unwrap_or(if d.name == "decoy_fx" { "decoy_mod.py" } else { "?" });
            if d.name == "shared" || (g.package_beside_module && d.name == "f1") {
                continue;
            }
            if rel(&d.file_path, &root) != want_file {
                rep.violation("imports: fixture attributed to a module that does not define it", &format!("{} recorded in {}", d.name, rel(&d.file_path, &root)), case);
            }
        }
    }
}

// ------------------------------------------------------------------ (ii) virtualenv layouts

#[derive(Clone, Debug, Serialize)]
pub struct Venv {
    pub target: usize,  // 0 module, 1 package, 2 submodule, 3 mod:attr
    pub install: usize, // 0 regular, 1 editable inside the workspace, 2 editable outside, 3 workspace is the editable root
    pub egg_info: bool,
    pub raw_dir_name: bool,
    pub pth: usize, // 0 __editable__.<n>-1.0, 1 _<n>, 2 <n>, 3 __editable__.<raw>-1.0
    pub builtins: bool,
    pub helper: usize, // 0 none, 1 star import, 2 pytest_plugins, 3 explicit import
    /// length of the star / pytest_plugins chain from the plugin module to the module defining helper_fx
    pub depth: usize,
    /// a project conftest (tests/conftest.py) also star-imports the module defining helper_fx
    pub conftest_route: bool,
}

fn enumerate_venvs(thorough: bool) -> Vec<Venv> {
    let mut v = Vec::new();
    for target in 0..4 {
        for install in 0..4 {
            for egg_info in [false, true] {
                if egg_info && install != 0 {
                    continue; // direct_url.json lives in dist-info only
                }
                for raw_dir_name in [false, true] {
                    for pth in 0..4 {
                        if install == 0 && pth != 0 {
                            continue;
                        }
                        if pth == 3 && !raw_dir_name {
                            continue; // a .pth named after the raw project name implies that name is known
                        }
                        for builtins in [false, true] {
                            for helper in 0..4 {
                                if !thorough && (builtins && helper != 0) {
                                    continue;
                                }
                                for depth in 1..=3 {
                                    if depth > 1 && !(helper == 1 || helper == 2) {
                                        continue;
                                    }
                                    for conftest_route in [false, true] {
                                        if conftest_route && helper == 0 {
                                            continue;
                                        }
                                        if !thorough && (pth != 0 || raw_dir_name) && (depth > 1 || conftest_route) {
                                            continue;
                                        }
                                        v.push(Venv { target, install, egg_info, raw_dir_name, pth, builtins, helper, depth, conftest_route });
                                    }
                                }
                            }
                        }
                    }
                }
            }
        }
    }
    v
}

fn check_venv(rep: &Report, v: &Venv, scans: &AtomicU64) {
    let sc = Scratch::new("c14v");
    let ws = sc.path().join("ws");
    std::fs::create_dir_all(&ws).unwrap();
    let sp = ws.join(".venv/lib/python3.11/site-packages");
    std::fs::create_dir_all(&sp).unwrap();
    let src: std::path::PathBuf = match v.install {
        0 => sp.clone(),
        1 => ws.join("src_plug"),
        2 => sc.path().join("outside/src_plug"),
        _ => ws.clone(),
    };
    std::fs::create_dir_all(&src).unwrap();
    let fixture = |n: &str| format!("import pytest\n\n@pytest.fixture\ndef {}():\n    return 1\n", n);
    // chain: plugin module -> my_plug_h1 -> ... -> my_plug_h<depth> (defines helper_fx)
    let link = |to: usize| -> String {
        match v.helper {
            1 => format!("from my_plug_h{} import *\n", to),
            2 => format!("pytest_plugins = [\"my_plug_h{}\"]\n", to),
            3 => format!("from my_plug_h{} import helper_fx\n", to),
            _ => String::new(),
        }
    };
    let imp = link(1);
    let plugin_text = format!("{}{}", imp, fixture("plug_fx"));
    let (entry, plugin_rel): (&str, &str) = match v.target {
        0 => ("my_plug", "my_plug.py"),
        1 => ("my_plug", "my_plug/__init__.py"),
        2 => ("my_plug.plugin", "my_plug/plugin.py"),
        _ => ("my_plug.plugin:hook", "my_plug/plugin.py"),
    };
    write_file(&src, plugin_rel, &plugin_text);
    if v.target >= 2 {
        write_file(&src, "my_plug/__init__.py", "");
    }
    if v.target == 1 {
        write_file(&src, "my_plug/extra.py", &fixture("extra_fx"));
        // the package ships its own tests: their conftest.py is a conftest of that directory, not a plugin module
        write_file(&src, "my_plug/tests/conftest.py", &fixture("nested_fx"));
        write_file(&src, "my_plug/tests/test_inner.py", "def test_inner(nested_fx):\n    pass\n");
    }
    let helper_dir = if v.target == 0 { src.clone() } else { src.join("my_plug") };
    if v.helper != 0 {
        // the helper modules live next to the plugin module (one copy)
        for k in 1..=v.depth {
            let text = if k == v.depth { fixture("helper_fx") } else { format!("{}{}", link(k + 1), fixture(&format!("mid{}_fx", k))) };
            write_file(&helper_dir, &format!("my_plug_h{}.py", k), &text);
        }
    }
    if v.conftest_route {
        let module = if v.target == 0 { format!("my_plug_h{}", v.depth) } else { format!("my_plug.my_plug_h{}", v.depth) };
        write_file(&ws, "tests/conftest.py", &format!("from {} import *\n", module));
    }
    write_file(&ws, "other/test_o.py", "def test_o(proj_fx, plug_fx, helper_fx, builtin_fx, extra_fx):\n    pass\n");
    let dist = format!("{}{}", if v.raw_dir_name { "my-plug" } else { "my_plug" }, if v.egg_info { ".egg-info" } else { "-1.0.dist-info" });
    write_file(&sp, &format!("{}/entry_points.txt", dist), &format!("[console_scripts]\nx = y:z\n\n[pytest11]\nmy_plug = {}\n", entry));
    if v.install != 0 {
        write_file(&sp, &format!("{}/direct_url.json", dist), &format!("{{\"url\": \"file://{}\", \"dir_info\": {{\"editable\": true}}}}", src.display()));
        let pth = ["__editable__.my_plug-1.0.pth", "_my_plug.pth", "my_plug.pth", "__editable__.my-plug-1.0.pth"][v.pth];
        write_file(&sp, pth, &format!("{}\n", src.display()));
    }
    if v.builtins {
        write_file(&sp, "_pytest/fixtures.py", &fixture("builtin_fx"));
        write_file(&sp, "_pytest/__init__.py", "");
    }
    write_file(&ws, "conftest.py", &fixture("proj_fx"));
    write_file(&ws, "tests/test_w.py", "def test_w(proj_fx, plug_fx, helper_fx, builtin_fx, extra_fx):\n    pass\n");
    let db = Arc::new(FixtureDatabase::new());
    db.scan_workspace(&ws);
    scans.fetch_add(1, Ordering::Relaxed);
    let root = ws.to_string_lossy().to_string();
    let case = || json!({"layout": v});
    let dir_matches_pth = true;
    let _ = dir_matches_pth;
    // expectations
    let third_party_plugin = v.install == 0 || v.install == 2;
    let mut expect: Vec<(&str, bool, bool, bool)> = vec![("proj_fx", true, false, false), ("plug_fx", true, third_party_plugin, true)]; // name, found, third_party, plugin
    if v.target == 1 {
        expect.push(("extra_fx", true, third_party_plugin, true));
    }
    if v.helper != 0 {
        // star / pytest_plugins propagate plugin status; an explicit import exports just the name
        expect.push(("helper_fx", true, third_party_plugin, v.helper != 3 || v.target == 1));
    }
    if v.builtins {
        expect.push(("builtin_fx", true, true, true));
    }
    let tpath = ws.join("tests/test_w.py");
    if v.target == 1 {
        // a conftest.py inside the plugin package provides its fixtures below its own directory only
        write_file(&ws, "other/test_n.py", "def test_n(nested_fx):\n    pass\n");
        db.analyze_file(ws.join("other/test_n.py"), "def test_n(nested_fx):\n    pass\n");
        if let Some(d) = db.find_fixture_definition(&ws.join("other/test_n.py"), 0, 12) {
            let fp = format!("venv: fixture of a conftest.py inside the plugin package resolves from a project test outside that directory [install={}]", ["regular", "editable-inside-workspace", "editable-outside", "workspace-is-editable-root"][v.install]);
            if !rep.count_if_seen(&fp) {
                rep.violation(&fp, &format!("other/test_n.py: nested_fx -> {} (plugin={}, third_party={})", rel(&d.file_path, &root), d.is_plugin, d.is_third_party), case);
            }
        }
    }
    let lsp = Lsp::new(db.clone(), Some(&ws));
    let wsym: BTreeSet<String> = lsp.workspace_symbol("").ok().flatten().unwrap_or_default().iter().map(|s| s.name.clone()).collect();
    for (name, found, tp, plug) in expect {
        let defs = db.definitions.get(name).map(|d| d.clone()).unwrap_or_default();
        let ctx = format!("install={} target={} helper={}", ["regular", "editable-inside-workspace", "editable-outside", "workspace-is-editable-root"][v.install], ["module", "package", "submodule", "mod:attr"][v.target], ["none", "star", "pytest_plugins", "explicit"][v.helper]);
        let ctx_full = format!("{} pth={} egg_info={} raw_dir_name={} builtins={}", ctx, v.pth, v.egg_info, v.raw_dir_name, v.builtins);
        let _ = &ctx_full;
        if found && defs.is_empty() {
            let fp = format!("venv: fixture `{}` not found [{}]", name, ctx);
            if !rep.count_if_seen(&fp) {
                rep.violation(&fp, &format!("{} is not in the index", name), case);
            }
            continue;
        }
        for d in &defs {
            if name != "proj_fx" && name != "helper_fx" && (d.is_third_party != tp || d.is_plugin != plug) {
                let fp = format!("venv: `{}` classified third_party={} plugin={} (expected {} / {}) [{}]", name, d.is_third_party, d.is_plugin, tp, plug, ctx);
                if !rep.count_if_seen(&fp) {
                    rep.violation(&fp, &format!("{} at {}", name, rel(&d.file_path, &root)), case);
                }
            }
            if name == "helper_fx" && !d.is_third_party && d.is_plugin != plug && rel(&d.file_path, &root).contains("my_plug_h") {
                let fp = format!("venv: `helper_fx` plugin={} (expected {}) [{} depth={} conftest_route={}]", d.is_plugin, plug, ctx, v.depth, v.conftest_route);
                if !rep.count_if_seen(&fp) {
                    rep.violation(&fp, &rel(&d.file_path, &root), case);
                }
            }
            if name == "helper_fx" && d.is_third_party != tp {
                let fp = format!("venv: `helper_fx` third_party={} (expected {}) [{}]", d.is_third_party, tp, ctx);
                if !rep.count_if_seen(&fp) {
                    rep.violation(&fp, &rel(&d.file_path, &root), case);
                }
            }
            if d.is_third_party && wsym.contains(name) {
                let fp = format!("venv: third-party fixture `{}` listed as a project symbol", name);
                if !rep.count_if_seen(&fp) {
                    rep.violation(&fp, &ctx, case);
                }
            }
        }
        // visible from a project test (helper fixtures of an explicit import: only when the module is a plugin file or third-party)
        let col = "def test_w(proj_fx, plug_fx, helper_fx, builtin_fx, extra_fx):".find(name).unwrap() as u32;
        let resolved = db.find_fixture_definition(&tpath, 0, col).is_some();
        let should = name != "helper_fx" || tp || plug || v.conftest_route;
        // and from a project test outside tests/ (no conftest route there)
        let opath = ws.join("other/test_o.py");
        let col_o = "def test_o(proj_fx, plug_fx, helper_fx, builtin_fx, extra_fx):".find(name).unwrap() as u32;
        let resolved_o = db.find_fixture_definition(&opath, 0, col_o).is_some();
        let should_o = name != "helper_fx" || tp || plug;
        if resolved_o != should_o {
            let fp = format!("venv: `{}` {} from a project test outside the importing conftest's directory [{} depth={} conftest_route={}]", name, if resolved_o { "resolves although it should not" } else { "does not resolve" }, ctx, v.depth, v.conftest_route);
            if !rep.count_if_seen(&fp) {
                rep.violation(&fp, "other/test_o.py", case);
            }
        }
        if resolved != should {
            let fp = format!("venv: `{}` {} from a project test [{}]", name, if resolved { "resolves although it should not" } else { "does not resolve" }, ctx);
            if !rep.count_if_seen(&fp) {
                rep.violation(&fp, "tests/test_w.py", case);
            }
        }
    }
}

pub fn run(rep: &'static Report) {
    let thorough = is_thorough();
    let graphs = enumerate_graphs(if thorough { 4 } else { 3 });
    let scans = AtomicU64::new(0);
    par_batches(&graphs, 16, |i, g| {
        check_graph(rep, g, &scans);
        if i % 2003 == 17 {
            rep.sample(json!({"import_graph": g}));
        }
    });
    // (iii) plugin status propagated through files the scan already knows when its last phase starts
    // (a conftest.py / test module that the entry-point plugin pulls in and that imports further
    // modules itself): the order in which that phase visits the known files is hash order, so the
    // same tree is scanned under several hash seeds (a labelled sweep) and every classification must
    // be the model's each time
    let seeds: Vec<u64> = if thorough { (1..=32).collect() } else { (1..=12).collect() };
    let mut sweep_scans = 0u64;
    for (how_in, how_out) in [("star", "star"), ("star", "plugins"), ("plugins", "star"), ("plugins", "plugins")] {
        let imp = |how: &str, m: &str| if how == "star" { Item::StarImport { module: m.into() } } else { Item::PytestPlugins { modules: vec![m.into()] } };
        let ws = Ws { files: vec![
            FileSpec { rel: "plug/myplug.py".into(), plugin: true, guarded_imports: false, items: vec![imp(how_in, "conftest"), Item::fixture("pfx", &[])] },
            FileSpec::new("plug/conftest.py", vec![imp(how_out, "deep"), Item::fixture("cfx", &[])]),
            FileSpec::new("plug/deep.py", vec![imp(how_out, "deeper"), Item::fixture("deep_fx", &[])]),
            FileSpec::new("plug/deeper.py", vec![Item::fixture("deeper_fx", &[])]),
            FileSpec::new("plug/test_p.py", vec![Item::test("p", &["pfx", "cfx", "deep_fx", "deeper_fx"])]),
            FileSpec::new("conftest.py", vec![Item::fixture("root_fx", &[])]),
        ] };
        let r = ws.render();
        let sc = Scratch::new("c14p");
        crate::e5::materialize_with_venv(&ws, &r, sc.path());
        let root = sc.path().to_string_lossy().to_string();
        for &seed in &seeds {
            let rootp = sc.path().to_path_buf();
            let root2 = root.clone();
            let lines = crate::seed::on_fresh_thread_seeded(seed, move || {
                let db = FixtureDatabase::new();
                db.scan_workspace(&rootp);
                let mut v: Vec<String> = Vec::new();
                for e in db.definitions.iter() {
                    for d in e.value() {
                        v.push(format!("{} plugin={} third_party={}", def_key(d, &root2), d.is_plugin, d.is_third_party));
                    }
                }
                v.sort();
                v
            });
            sweep_scans += 1;
            scans.fetch_add(1, Ordering::Relaxed);
            let want: Vec<String> = {
                let mut w: Vec<String> = ["conftest.py:4:root_fx plugin=false third_party=false", "plug/conftest.py:5:cfx plugin=true third_party=false", "plug/deep.py:5:deep_fx plugin=true third_party=false", "plug/deeper.py:4:deeper_fx plugin=true third_party=false", "plug/myplug.py:5:pfx plugin=true third_party=false"].iter().map(|x| x.to_string()).collect();
                w.sort();
                w
            };
            // line numbers depend on the import form (pytest_plugins is rendered after the fixtures): compare names and flags
            let strip = |v: &Vec<String>| -> Vec<String> { v.iter().map(|l| { let mut p = l.splitn(2, ' '); let k = p.next().unwrap_or(""); let rest = p.next().unwrap_or(""); format!("{}:{} {}", k.split(':').next().unwrap_or(""), k.rsplit(':').next().unwrap_or(""), rest) }).collect() };
            if strip(&lines) != strip(&want) {
                let fp = format!("plugin status not propagated through a file the scan already knew (entry module pulls the conftest in by {}, further modules by {})", how_in, how_out);
                if !rep.count_if_seen(&fp) {
                    rep.violation(&fp, &format!("hash seed {}: classifications {:?}, expected {:?}", seed, strip(&lines), strip(&want)), || json!({"seed": seed, "files": ws.files.iter().enumerate().map(|(i, f)| json!({"path": f.rel, "text": r.texts[i]})).collect::<Vec<_>>()}));
                }
            }
        }
    }
    rep.set("plugin_propagation_seed_sweep", json!({"layouts": 4, "hash_seeds": seeds, "scans": sweep_scans}));
    // (iv) a workspace larger than the file cache: eviction during the scan's parallel phase must not
    // decide which conftest.py files get their imports followed afterwards (labelled seed sweep)
    {
        let sc = Scratch::new("c14big");
        let root = sc.path().to_path_buf();
        for i in 0..2100 {
            write_file(&root, &format!("pkg{}/test_m{}.py", i % 40, i), "def test_x(hx):\n    pass\n");
        }
        for k in 0..40 {
            write_file(&root, &format!("pkg{}/conftest.py", k), &format!("from helpers{} import *\n", k));
            write_file(&root, &format!("pkg{}/helpers{}.py", k, k), &format!("import pytest\n\n@pytest.fixture\ndef hx{}():\n    return 1\n", k));
        }
        let big_seeds: Vec<u64> = if thorough { (1..=8).collect() } else { (1..=3).collect() };
        for &seed in &big_seeds {
            let rootp = root.clone();
            let found = crate::seed::on_fresh_thread_seeded(seed, move || {
                let db = FixtureDatabase::new();
                db.scan_workspace(&rootp);
                (0..40).filter(|k| db.definitions.contains_key(&format!("hx{}", k))).count()
            });
            scans.fetch_add(1, Ordering::Relaxed);
            if found != 40 {
                rep.violation("large workspace: fixtures of modules imported by a conftest.py are not discovered once the file cache has evicted entries during the scan", &format!("hash seed {}: {} of 40 helper modules indexed (2140 test/conftest files, cache limit 2000)", seed, found), || json!({"seed": seed, "found": found}));
            }
        }
        rep.set("large_workspace_scans", json!({"files": 2180, "hash_seeds": big_seeds}));
    }
    // (v) several editable installs side by side, inside and outside the workspace, registered in
    // every order (dist-info directories created in every order: read_dir order follows it on tmpfs)
    {
        let mut combos: Vec<(Vec<bool>, Vec<usize>)> = Vec::new(); // (inside? per install, creation order)
        for n in 2..=3usize {
            for mask in 0..(1u32 << n) {
                let inside: Vec<bool> = (0..n).map(|i| mask & (1 << i) != 0).collect();
                for order in crate::db::permutations(n) {
                    combos.push((inside.clone(), order));
                }
            }
        }
        let multi = AtomicU64::new(0);
        par_batches(&combos, 4, |_i, (inside, order)| {
            let sc = Scratch::new("c14m");
            let ws = sc.path().join("ws");
            let sp = ws.join(".venv/lib/python3.11/site-packages");
            std::fs::create_dir_all(&sp).unwrap();
            write_file(&ws, "tests/test_t.py", "def test_t():\n    pass\n");
            for &k in order {
                let name = format!("plug{}", ["a", "m", "z"][k]);
                let src = if inside[k] { ws.join(format!("pkgs/{}", name)) } else { sc.path().join(format!("outside/{}", name)) };
                write_file(&src, &format!("{}.py", name), &format!("import pytest\n\n@pytest.fixture\ndef {}_fx():\n    return 1\n", name));
                write_file(&sp, &format!("{}-1.0.dist-info/entry_points.txt", name), &format!("[pytest11]\n{} = {}\n", name, name));
                write_file(&sp, &format!("{}-1.0.dist-info/direct_url.json", name), &format!("{{\"url\": \"file://{}\", \"dir_info\": {{\"editable\": true}}}}", src.display()));
                write_file(&sp, &format!("__editable__.{}-1.0.pth", name), &format!("{}\n", src.display()));
            }
            let db = FixtureDatabase::new();
            db.scan_workspace(&ws);
            multi.fetch_add(1, Ordering::Relaxed);
            for (k, ins) in inside.iter().enumerate() {
                let name = format!("plug{}_fx", ["a", "m", "z"][k]);
                let got: Option<(bool, bool)> = db.definitions.get(&name).and_then(|v| v.first().map(|d| (d.is_third_party, d.is_plugin)));
                let want = Some((!*ins, true));
                if got != want {
                    let fp = format!("several editable installs: fixture of an install {} the workspace classified wrongly (third_party, plugin) = {:?}", if *ins { "inside" } else { "outside" }, got);
                    if !rep.count_if_seen(&fp) {
                        rep.violation(&fp, &format!("installs inside-workspace flags {:?}, created in order {:?}: {} expected {:?}, got {:?}", inside, order, name, want, got), || json!({"inside": inside, "creation_order": order}));
                    }
                }
            }
        });
        scans.fetch_add(multi.load(Ordering::Relaxed), Ordering::Relaxed);
        rep.set("multi_install_layouts", multi.load(Ordering::Relaxed));
    }
    let venvs = enumerate_venvs(thorough);
    par_batches(&venvs, 8, |i, v| {
        check_venv(rep, v, &scans);
        if i % 301 == 7 {
            rep.sample(json!({"venv_layout": v}));
        }
    });
    let s = scans.load(Ordering::Relaxed);
    rep.set("evaluations", s);
    rep.set("import_graphs", graphs.len() as u64);
    rep.set("venv_layouts", venvs.len() as u64);
    rep.set("states", (graphs.len() + venvs.len()) as u64);
    rep.set("transitions", s);
    rep.set("distinct_nontrivial", (graphs.iter().filter(|g| !g.edges.is_empty()).count() + venvs.len()) as u64);
    rep.set("traces_validated_against_impl", s);
    rep.set("exhaustive", true);
    rep.set("rule", "(i) every import graph with at most 3 (quick) / 4 (thorough) edges among the 12 possible (source ∈ {conftest.py, m1.py, m2.py, pkg/m3.py}) → (target ∈ {m1, m2, pkg.m3}) pairs, each edge a star import, an explicit import of the target's fixture, an explicit import of every fixture name (so that re-exported and unavailable names are requested too), a pytest_plugins entry or a pytest_plugins entry preceded by an overwritten assignment, in absolute and relative spelling (levels 1 and 2; relative graphs without pytest_plugins edges once more with helper modules named like standard-library modules: http, types, email), including self-loops, cycles and diamonds, plus every such graph with one edge less extended by an import statement (star, the target's fixture, every fixture name) in the test module test_x.py itself — materialised on tmpfs and scanned for real; the reference model (PytestLookup with transitive star/pytest_plugins export and per-name explicit export) gives for every name used by test_x.py the defining module or 'not reachable'; compared with go-to-definition (resolver walk), the available-fixtures view (completion walk), the set of modules the scan analysed (scanner walk) and the defining module recorded; (ii) the product of virtualenv layouts: entry-point target {module, package, submodule, mod:attr} × install {regular, editable inside the workspace, editable outside, workspace is the editable root} × {dist-info, egg-info} × raw/normalised distribution directory name × 4 .pth namings × pytest built-ins present/absent × plugin module {plain, star-imports a helper, declares pytest_plugins, explicit import} × chain length 1..3 to the helper's module × {a project conftest also star-imports that module, not}; expected: every plugin fixture found, third-party iff its source lives in site-packages or in an editable root outside the workspace, plugin iff reached from an entry point (propagated by star/pytest_plugins), visible from a project test, and no third-party fixture among workspace symbols; (iii) four trees in which the entry-point module pulls in the directory's conftest.py, which imports further modules itself (star / pytest_plugins), scanned under a labelled sweep of hash seeds: plugin status must reach every module of the chain each time; (iv) a tree with 2140 test/conftest files (more than the file cache holds) whose 40 conftest.py files each import a helper module: every helper's fixture must be discovered under each swept hash seed; (v) two and three editable installs side by side, each inside or outside the workspace, their metadata created in every order: third-party iff outside, plugin always");
    rep.assume("aliased explicit imports are outside the grammar (documented as unsupported)");
}
