//! C02 — a self-named parameter resolves outward; the cursor decides which fixture.
//! All override chains (ordered subsets of the visibility positions, length 1..4), every link
//! kind (own / imported parent), every self-request flag, all registration orders; on every
//! `def fx(fx):` line the cursor visits every column.

use crate::checks::wscheck::{case_json, check_usages, def_loc, Counters};
use crate::db::{build_db, hash_lines, index_snapshot, permutations, rel, IndexParts};
use crate::lsp::{path_of, Lsp};
use crate::report::{is_thorough, par_batches, Report};
use crate::ws::{DefId, FileSpec, Item, UsageKind, Ws, ROOT};
use serde::Serialize;
use serde_json::json;
use std::sync::atomic::Ordering;
use std::sync::Arc;

#[derive(Clone, Debug, Serialize)]
pub struct Link {
    /// position index: 0 = same file (deepest test module), 1..=depth = conftest from nearest to
    /// root, depth+1 = workspace plugin, depth+2 = third-party
    pub pos: usize,
    /// conftest links only: the definition lives in a helper module the conftest star-imports
    pub imported: bool,
    /// the link requests `fx` itself
    pub requests: bool,
    /// same-file link only: the definition is written below the tests and fixtures that use it
    pub below: bool,
    /// requesting links only: the signature is wrapped, the `fx` parameter sits on its own line
    #[serde(default)]
    pub wrapped: bool,
    /// requesting links only: the whole function is written on one line
    #[serde(default)]
    pub oneline: bool,
    /// requesting links only: the file holds an earlier, plain definition of the same name (module-level
    /// fixture + class-level override, or a redefinition further down): the parameter denotes that one
    #[serde(default)]
    pub dup_before: bool,
    /// requesting links only: declared with `@pytest.fixture(name="fx")` on a function named otherwise
    #[serde(default)]
    pub alias: bool,
    /// imported links only: the helper module that holds the definition itself star-imports a base module
    /// defining a plain `fx` above it (its own definition rebinds the name: the helper provides its own)
    #[serde(default)]
    pub helper_base: bool,
}

fn fxdef(l: &Link) -> Item {
    let mut f = Item::fixture("fx", if l.requests { &["fx"] } else { &[] });
    if let Item::Fixture { wrapped: w, oneline: o, alias: a, .. } = &mut f {
        *w = l.wrapped && l.requests;
        *o = l.oneline && l.requests;
        *a = l.alias && l.requests;
    }
    f
}

#[derive(Clone, Debug, Serialize)]
pub struct Chain {
    pub depth: usize,
    pub links: Vec<Link>,
}

const DIRS: [&str; 3] = ["", "a/", "a/b/"];

impl Chain {
    pub fn to_ws(&self) -> Ws {
        let d = self.depth;
        let mut files: Vec<FileSpec> = Vec::new();
        // test modules at every depth; the deepest one may carry the same-file link
        for k in 0..d {
            let mut items = vec![];
            let own = if k == d - 1 { self.links.iter().find(|l| l.pos == 0) } else { None };
            if let Some(l) = own {
                if l.dup_before && l.requests {
                    items.push(Item::fixture("fx", &[]));
                }
                if !l.below {
                    items.push(fxdef(l));
                }
            }
            items.push(Item::test("t", &["fx"]));
            items.push(Item::fixture(&format!("g{}", k), &["fx"]));
            if let Some(l) = own {
                if l.below {
                    items.push(fxdef(l));
                }
            }
            files.push(FileSpec::new(&format!("{}test_m{}.py", DIRS[k], k), items));
        }
        for l in &self.links {
            if l.pos >= 1 && l.pos <= d {
                // conftest at level (d - l.pos): pos 1 = nearest
                let lvl = d - l.pos;
                let dir = DIRS[lvl];
                if l.imported {
                    files.push(FileSpec::new(
                        &format!("{}conftest.py", dir),
                        vec![Item::StarImport {
                            module: format!("hh{}", lvl),
                        }],
                    ));
                    if l.helper_base {
                        files.push(FileSpec::new(&format!("{}hh{}.py", dir, lvl), vec![Item::StarImport { module: format!("bb{}", lvl) }, fxdef(l)]));
                        files.push(FileSpec::new(&format!("{}bb{}.py", dir, lvl), vec![Item::fixture("fx", &[])]));
                    } else {
                        files.push(FileSpec::new(&format!("{}hh{}.py", dir, lvl), vec![fxdef(l)]));
                    }
                } else {
                    // a dependent fixture written above the (possibly self-requesting) definition
                    files.push(FileSpec::new(
                        &format!("{}conftest.py", dir),
                        if l.dup_before && l.requests { vec![Item::fixture("fx", &[]), Item::fixture(&format!("c{}", lvl), &["fx"]), fxdef(l)] } else { vec![Item::fixture(&format!("c{}", lvl), &["fx"]), fxdef(l)] },
                    ));
                }
            } else if l.pos == d + 1 {
                let mut f = FileSpec::new("plug/myplugin.py", vec![fxdef(l)]);
                f.plugin = true;
                files.push(f);
            } else if l.pos == d + 2 {
                files.push(FileSpec::new(
                    ".venv/lib/python3.11/site-packages/tp/plugin.py",
                    vec![Item::fixture("fx", &[])],
                ));
            }
        }
        Ws { files }
    }

    pub fn enumerate(depth: usize, max_len: usize) -> Vec<Chain> {
        let npos = depth + 3;
        let mut out = Vec::new();
        for mask in 1u32..(1 << npos) {
            let n = mask.count_ones() as usize;
            if n > max_len {
                continue;
            }
            let positions: Vec<usize> = (0..npos).filter(|p| mask & (1 << p) != 0).collect();
            // per link options
            // (imported, requests, below, wrapped, oneline, dup_before, alias, helper_base)
            let opts: Vec<Vec<(bool, bool, bool, bool, bool, bool, bool, bool)>> = positions
                .iter()
                .map(|&p| {
                    if p == 0 {
                        vec![(false, false, false, false, false, false, false, false), (false, true, false, false, false, false, false, false), (false, false, true, false, false, false, false, false), (false, true, true, false, false, false, false, false), (false, true, false, true, false, false, false, false), (false, true, true, true, false, false, false, false), (false, true, false, false, true, false, false, false), (false, true, true, false, true, false, false, false), (false, true, false, false, false, true, false, false), (false, true, false, true, false, true, false, false), (false, true, false, false, false, false, true, false), (false, true, false, true, false, false, true, false)]
                    } else if p <= depth {
                        vec![(false, false, false, false, false, false, false, false), (false, true, false, false, false, false, false, false), (true, false, false, false, false, false, false, false), (true, true, false, false, false, false, false, false), (false, true, false, true, false, false, false, false), (true, true, false, true, false, false, false, false), (false, true, false, false, true, false, false, false), (false, true, false, false, false, true, false, false), (false, true, false, false, false, false, true, false), (true, false, false, false, false, false, false, true), (true, true, false, false, false, false, false, true)]
                    } else if p == depth + 1 {
                        // the workspace plugin may override a third-party fixture and request it
                        vec![(false, false, false, false, false, false, false, false), (false, true, false, false, false, false, false, false), (false, true, false, true, false, false, false, false)]
                    } else {
                        vec![(false, false, false, false, false, false, false, false)]
                    }
                })
                .collect();
            let mut idx = vec![0usize; n];
            loop {
                out.push(Chain {
                    depth,
                    links: positions
                        .iter()
                        .enumerate()
                        .map(|(i, &p)| Link {
                            pos: p,
                            imported: opts[i][idx[i]].0,
                            requests: opts[i][idx[i]].1,
                            below: opts[i][idx[i]].2,
                            wrapped: opts[i][idx[i]].3,
                            oneline: opts[i][idx[i]].4,
                            dup_before: opts[i][idx[i]].5,
                            alias: opts[i][idx[i]].6,
                            helper_base: opts[i][idx[i]].7,
                        })
                        .collect(),
                });
                let mut k = 0;
                while k < n {
                    idx[k] += 1;
                    if idx[k] < opts[k].len() {
                        break;
                    }
                    idx[k] = 0;
                    k += 1;
                }
                if k == n {
                    break;
                }
            }
        }
        out
    }
}

type Loc = (String, usize, usize, usize); // file, line(1-based), start, end

fn refs_expected(ws: &Ws, r: &crate::ws::Rendered, d: DefId) -> Vec<Loc> {
    let (df, dl) = def_loc(r, ws, d);
    let mut v: Vec<Loc> = vec![(df.clone(), dl, 0, 0)];
    for u in &r.usages {
        if ws.expected_for(u) == Some(d) {
            let f = ws.files[u.file].rel.clone();
            // the handler documents skipping usages on the definition's own line
            if f == df && u.line == dl {
                continue;
            }
            v.push((f, u.line, u.start, u.end));
        }
    }
    v.sort();
    v
}

pub fn run(rep: &Report) {
    let thorough = is_thorough();
    let depth = 3;
    let max_len = if thorough { 4 } else { 3 };
    let chains = Chain::enumerate(depth, max_len);
    let cnt = Counters::new();
    let judged_lines = std::sync::atomic::AtomicU64::new(0);
    let multi = std::sync::atomic::AtomicU64::new(0);
    par_batches(&chains, 16, |ci, ch| {
        let ws = ch.to_ws();
        let r = ws.render();
        let mut defs = Vec::new();
        let mut others = Vec::new();
        for (i, f) in ws.files.iter().enumerate() {
            if f.defines("fx") {
                defs.push(i)
            } else {
                others.push(i)
            }
        }
        if ch.links.len() >= 2 {
            multi.fetch_add(1, Ordering::Relaxed);
        }
        for perm in permutations(defs.len()) {
            let mut order = others.clone();
            order.extend(perm.iter().map(|&k| defs[k]));
            let db = Arc::new(build_db(&ws, &r, &order, false));
            cnt.dbs.fetch_add(1, Ordering::Relaxed);
            cnt.analyses.fetch_add(order.len() as u64, Ordering::Relaxed);
            cnt.states
                .lock()
                .unwrap()
                .insert(hash_lines(&index_snapshot(&db, ROOT, IndexParts::CORE)));
            let case = case_json(&ws, &order, false);
            // (D) every usage binds to the innermost visible link
            check_usages(rep, &cnt, &case, &ws, &r, &db);
            // (A-C) every column of every `def fx(fx):` line
            let lsp = Lsp::new(db.clone(), None);
            for ds in r.defs.iter().filter(|d| d.name == "fx") {
                let this = ds.id;
                let requests = ws.deps_of(this).iter().any(|x| x == "fx");
                if !requests {
                    continue;
                }
                judged_lines.fetch_add(1, Ordering::Relaxed);
                let path = ws.path(this.file);
                let pu = r
                    .usages
                    .iter()
                    .find(|u| {
                        u.file == this.file
                            && u.item == this.item
                            && u.kind == UsageKind::FixtureParam
                            && u.name == "fx"
                    })
                    .unwrap();
                let outer = ws.lookup(this.file, "fx", Some(this));
                let this_loc = def_loc(&r, &ws, this);
                // every column of the `def` line and — wrapped signature — of the parameter's line
                let mut sweep: Vec<(usize, usize)> = Vec::new();
                for ln in if pu.line == ds.line { vec![ds.line] } else { vec![ds.line, pu.line] } {
                    let text_line = r.texts[this.file].lines().nth(ln - 1).unwrap();
                    sweep.extend((0..=text_line.len()).map(|c| (ln, c)));
                }
                for (qline, col) in sweep {
                    let on_name = qline == ds.line && col >= ds.start && col < ds.end;
                    // `@pytest.fixture(name="fx") def fx_impl(fx)`: the token after `def` is not the
                    // fixture's name; what a request on it should answer is not stated — not judged
                    if on_name && matches!(&ws.files[this.file].items[this.item], Item::Fixture { alias: true, .. }) {
                        continue;
                    }
                    let on_param = qline == pu.line && col >= pu.start && col < pu.end;
                    let wrapped_tag = if pu.line != ds.line { " [wrapped signature]" } else { "" };
                    let q = |kind: &str| json!({"kind": kind, "file": ws.files[this.file].rel, "line": qline, "col": col});
                    cnt.queries.fetch_add(3, Ordering::Relaxed);
                    // --- go-to-definition
                    let got = db
                        .find_fixture_definition(&path, (qline - 1) as u32, col as u32)
                        .map(|d| (rel(&d.file_path, ROOT), d.line));
                    let want = if on_param {
                        outer.map(|o| def_loc(&r, &ws, o))
                    } else {
                        None
                    };
                    if got != want {
                        let cls = if got.as_ref() == Some(&this_loc) {
                            "the-overriding-fixture-itself"
                        } else if got.is_none() {
                            "none"
                        } else {
                            "another-definition"
                        };
                        rep.violation(
                            &format!(
                                "def-line goto: cursor-on={} got={}{}",
                                if on_param { "parameter" } else if on_name { "name" } else { "elsewhere" },
                                cls,
                                wrapped_tag
                            ),
                            &format!(
                                "go-to-definition on `def fx(fx)` line of {} col {}: expected {:?}, got {:?}",
                                ws.files[this.file].rel, col, want, got
                            ),
                            || json!({"case": case, "query": q("goto"), "expected": want, "observed": got}),
                        );
                    }
                    // --- references
                    let refs = lsp.references(&path, (qline - 1) as u32, col as u32);
                    let refs: Option<Vec<Loc>> = match refs {
                        Ok(o) => o.map(|v| {
                            let mut x: Vec<Loc> = v
                                .iter()
                                .map(|l| {
                                    (
                                        rel(&path_of(&l.uri), ROOT),
                                        l.range.start.line as usize + 1,
                                        l.range.start.character as usize,
                                        l.range.end.character as usize,
                                    )
                                })
                                .collect();
                            x.sort();
                            x
                        }),
                        Err(p) => {
                            rep.violation("references-panic", &p, || json!({"case": case, "query": q("references")}));
                            None
                        }
                    };
                    let want_refs: Option<Option<Vec<Loc>>> = if on_name {
                        Some(Some(refs_expected(&ws, &r, this)))
                    } else if on_param {
                        // judged only when an outer link exists (statement: "goes to the next
                        // definition outward"); without one the statement does not say
                        outer.map(|o| Some(refs_expected(&ws, &r, o)))
                    } else {
                        Some(None)
                    };
                    if let Some(w) = want_refs {
                        if refs != w {
                            rep.violation(
                                &format!(
                                    "def-line references: cursor-on={}{}",
                                    if on_param { "parameter" } else if on_name { "name" } else { "elsewhere" },
                                    wrapped_tag
                                ),
                                &format!(
                                    "references on `def fx(fx)` line of {} col {}: expected {:?}, got {:?}",
                                    ws.files[this.file].rel, col, w, refs
                                ),
                                || json!({"case": case, "query": q("references"), "expected": w, "observed": refs}),
                            );
                        }
                    }
                    // --- prepareCallHierarchy
                    let prep = match lsp.prepare_call_hierarchy(&path, (qline - 1) as u32, col as u32) {
                        Ok(o) => o.map(|v| {
                            v.iter()
                                .map(|i| {
                                    (
                                        rel(&path_of(&i.uri), ROOT),
                                        i.selection_range.start.line as usize + 1,
                                    )
                                })
                                .collect::<Vec<_>>()
                        }),
                        Err(p) => {
                            rep.violation("prepare-panic", &p, || json!({"case": case, "query": q("prepare")}));
                            None
                        }
                    };
                    let want_prep = if on_name {
                        Some(vec![this_loc.clone()])
                    } else if on_param {
                        outer.map(|o| vec![def_loc(&r, &ws, o)])
                    } else {
                        None
                    };
                    if prep != want_prep {
                        rep.violation(
                            &format!(
                                "def-line prepareCallHierarchy: cursor-on={}{}",
                                if on_param { "parameter" } else if on_name { "name" } else { "elsewhere" },
                                wrapped_tag
                            ),
                            &format!(
                                "prepareCallHierarchy on `def fx(fx)` line of {} col {}: expected {:?}, got {:?}",
                                ws.files[this.file].rel, col, want_prep, prep
                            ),
                            || json!({"case": case, "query": q("prepare"), "expected": want_prep, "observed": prep}),
                        );
                    }
                }
            }
        }
        if ci % 401 == 0 {
            rep.sample(json!({"chain": ch, "files": ws.files.iter().map(|f| f.rel.clone()).collect::<Vec<_>>()}));
        }
    });
    let q = cnt.queries.load(Ordering::Relaxed);
    rep.set("evaluations", q);
    rep.set("chains_enumerated", chains.len() as u64);
    rep.set("databases_built", cnt.dbs.load(Ordering::Relaxed));
    rep.set("self_requesting_def_lines_swept", judged_lines.load(Ordering::Relaxed));
    rep.set("states", cnt.states.lock().unwrap().len() as u64);
    rep.set("transitions", cnt.analyses.load(Ordering::Relaxed) + q);
    rep.set("distinct_nontrivial", multi.load(Ordering::Relaxed));
    rep.set("traces_validated_against_impl", cnt.handler_calls.load(Ordering::Relaxed));
    rep.set("exhaustive", true);
    rep.set("bounds", json!({"depth": depth, "max_chain_len": max_len, "positions": depth + 3}));
    rep.set("rule", "every ordered subset (length 1..max_chain_len) of the visibility positions [same file, conftest per level nearest→root, workspace plugin, third-party] × per conftest link {own, star-imported parent} × per same-file/conftest link {requests fx, does not} × same-file link written {above, below} its users (conftest links always have a dependent fixture written above them) × every permutation of the analysis order of the defining files; test modules and a dependent fixture at every depth; every column of every `def fx(fx):` line for go-to-definition, references and prepareCallHierarchy; every usage site × column as in C01; non-trivial = chains with ≥2 links");
    rep.assume("plugin and third-party links do not request fx themselves (pytest orders plugin-level fixtures by registration, which the statement does not cover)");
    rep.assume("references from a self-named parameter are judged only when an outer link exists");
}
