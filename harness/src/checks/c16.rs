//! C16 — dependency diagnostics (cycles, scope mismatches) are exact and stable.
//! All small dependency graphs over definition slots (name × file) × dependency lists × scopes ×
//! registration orders × hash seeds, against a reference graph over *definitions*.

use crate::db::{build_db, def_key, permutations, rel};
use crate::report::{is_thorough, par_batches, Report};
use crate::ws::{DefId, FileSpec, Item, Scope, Ws, ROOT};
use pytest_language_server::FixtureDatabase;
use serde::Serialize;
use serde_json::json;
use std::collections::{BTreeMap, BTreeSet};
use std::sync::atomic::{AtomicU64, Ordering};

const NAMES: [&str; 3] = ["a", "b", "c"];
const FILES: [&str; 3] = ["conftest.py", "s/conftest.py", "s/test_t.py"];
const DEP_NAMES: [&str; 4] = ["a", "b", "c", "u"];

#[derive(Clone, Debug, Serialize)]
pub struct Slot {
    pub name: usize,
    pub file: usize,
    pub deps: Vec<usize>, // indices into DEP_NAMES
    pub scope: Scope,
}

#[derive(Clone, Debug, Serialize)]
pub struct Graph {
    pub slots: Vec<Slot>,
}

impl Graph {
    pub fn to_ws(&self) -> Ws {
        let mut files: Vec<FileSpec> = FILES.iter().map(|f| FileSpec::new(f, vec![])).collect();
        for s in &self.slots {
            let deps: Vec<&str> = s.deps.iter().map(|&d| DEP_NAMES[d]).collect();
            files[s.file].items.push(Item::scoped(NAMES[s.name], &deps, s.scope));
        }
        // a test in the deepest file so that every file is a real pytest file
        files[2].items.push(Item::test("t", &[]));
        Ws { files }
    }
}

fn dep_options(max: usize) -> Vec<Vec<usize>> {
    let mut v: Vec<Vec<usize>> = vec![vec![]];
    for a in 0..4 {
        v.push(vec![a]);
    }
    if max >= 2 {
        for a in 0..4 {
            for b in (a + 1)..4 {
                v.push(vec![a, b]);
            }
        }
    }
    v
}

fn slot_sets(max: usize) -> Vec<Vec<(usize, usize)>> {
    let all: Vec<(usize, usize)> = (0..3).flat_map(|n| (0..3).map(move |f| (n, f))).collect();
    let mut out = Vec::new();
    for mask in 1u32..(1 << 9) {
        if (mask.count_ones() as usize) <= max {
            out.push((0..9).filter(|i| mask & (1 << i) != 0).map(|i| all[i]).collect());
        }
    }
    // the same name defined twice in one file (e.g. a module-level fixture and a class-level
    // override): every smaller set with one of its slots repeated, the copy written later in the file
    let plain: Vec<Vec<(usize, usize)>> = out.clone();
    for set in plain.iter().filter(|s| s.len() < max) {
        for e in set {
            let mut d = set.clone();
            d.push(*e);
            out.push(d);
        }
    }
    out
}

/// Reference graph over definitions.
struct Model {
    defs: Vec<DefId>,
    edges: BTreeMap<DefId, Vec<(String, DefId)>>, // (dependency name, target)
}

fn model(ws: &Ws) -> Model {
    let defs = ws.all_defs();
    let mut edges = BTreeMap::new();
    for &d in &defs {
        let mut e = Vec::new();
        for dep in ws.deps_of(d) {
            let own = dep == ws.name_of(d);
            match ws.lookup(d.file, &dep, if own { Some(d) } else { None }) {
                Some(t) => e.push((dep.clone(), t)),
                None => {
                    if own {
                        // requesting one's own name with nothing to override: pytest reports a
                        // recursive dependency
                        e.push((dep.clone(), d));
                    }
                }
            }
        }
        edges.insert(d, e);
    }
    Model { defs, edges }
}

impl Model {
    /// definitions that lie on some cycle (non-trivial SCC or self-loop), grouped by SCC
    fn cyclic_sccs(&self) -> Vec<BTreeSet<DefId>> {
        // tiny graphs: reachability closure
        let reach = |from: DefId| -> BTreeSet<DefId> {
            let mut seen = BTreeSet::new();
            let mut st: Vec<DefId> = self.edges[&from].iter().map(|x| x.1).collect();
            while let Some(x) = st.pop() {
                if seen.insert(x) {
                    st.extend(self.edges[&x].iter().map(|y| y.1));
                }
            }
            seen
        };
        let mut sccs: Vec<BTreeSet<DefId>> = Vec::new();
        for &d in &self.defs {
            let r = reach(d);
            if r.contains(&d) {
                let scc: BTreeSet<DefId> = r.iter().filter(|x| reach(**x).contains(&d)).cloned().collect();
                if !sccs.contains(&scc) {
                    sccs.push(scc);
                }
            }
        }
        sccs
    }
    /// The walk that `names` (first == last) describes from `start`: each hop follows the
    /// dependency of that name as the model resolves it.  Some(nodes) iff it closes at `start`.
    fn closed_walk(&self, ws: &Ws, start: DefId, names: &[String]) -> Option<Vec<DefId>> {
        if names.len() < 2 || names.first() != names.last() || ws.name_of(start) != names[0] {
            return None;
        }
        let mut nodes = vec![start];
        let mut cur = start;
        for n in &names[1..] {
            let next = self.edges[&cur].iter().find(|(dep, _)| dep == n).map(|(_, t)| *t)?;
            if ws.name_of(next) != *n {
                return None;
            }
            cur = next;
            nodes.push(cur);
        }
        if cur == start {
            nodes.pop();
            Some(nodes)
        } else {
            None
        }
    }
    /// every definition that lies on some dependency cycle
    fn on_cycle(&self) -> BTreeSet<DefId> {
        self.cyclic_sccs().into_iter().flatten().collect()
    }
}

fn def_of(ws: &Ws, r: &crate::ws::Rendered, relp: &str, line: usize) -> Option<DefId> {
    r.defs.iter().find(|x| ws.files[x.id.file].rel == relp && x.line == line).map(|x| x.id)
}

pub struct Tally {
    pub graphs: AtomicU64,
    pub dbs: AtomicU64,
    pub cyclic: AtomicU64,
    pub mismatch_expected: AtomicU64,
    pub evals: AtomicU64,
}

fn check_graph(rep: &Report, t: &Tally, g: &Graph, seeds: &[u64], isolate: bool) {
    // violation with lazily built description
    let viol = |fp: String, what: &dyn Fn() -> String, case: &dyn Fn() -> serde_json::Value| {
        if !rep.count_if_seen(&fp) {
            rep.violation(&fp, &what(), case);
        }
    };
    let ws = g.to_ws();
    let r = ws.render();
    let m = model(&ws);
    let sccs = m.cyclic_sccs();
    t.graphs.fetch_add(1, Ordering::Relaxed);
    if !sccs.is_empty() {
        t.cyclic.fetch_add(1, Ordering::Relaxed);
    }
    // context for fingerprints: does any name have several definitions / is any name-level edge
    // invisible from the depending file?
    let mut per_name: BTreeMap<String, usize> = BTreeMap::new();
    for d in &m.defs {
        *per_name.entry(ws.name_of(*d)).or_insert(0) += 1;
    }
    let multi = per_name.values().any(|&n| n > 1);
    let invisible = m.defs.iter().any(|d| {
        ws.deps_of(*d).iter().any(|dep| per_name.contains_key(dep) && {
            let own = *dep == ws.name_of(*d);
            ws.lookup(d.file, dep, if own { Some(*d) } else { None }).is_none() && !own
        })
    });
    let ctx = format!("same_name_defined_twice={} dependency_not_visible={}", multi, invisible);
    // expected scope mismatches per file
    let mut want_mm: BTreeSet<(DefId, DefId)> = BTreeSet::new();
    for &d in &m.defs {
        for (_dep, tgt) in &m.edges[&d] {
            if *tgt != d && ws.scope_of(*tgt) < ws.scope_of(d) {
                want_mm.insert((d, *tgt));
            }
        }
    }
    t.mismatch_expected.fetch_add(want_mm.len() as u64, Ordering::Relaxed);
    let files_used: Vec<usize> = (0..3).collect();
    let mut reports: BTreeMap<String, BTreeSet<String>> = BTreeMap::new(); // variant -> reported cycles (canonical)
    let perms = permutations(files_used.len());
    for &seed in seeds {
        // (A)/(C): one fresh, seeded OS thread per (graph, seed) running all analysis orders in a
        // fixed sequence, so HashMap iteration orders are a function of the seed only;
        // (B) (scope vectors) is hash-independent and runs inline
        let run_all = || {
            perms
                .iter()
                .map(|order| {
                    let body = || {
                let db = build_db(&ws, &r, &order, false);
                let cyc = |db: &FixtureDatabase| -> Vec<(String, usize, Vec<String>)> {
                    let mut v: Vec<(String, usize, Vec<String>)> = db
                        .detect_fixture_cycles()
                        .iter()
                        .map(|c| (rel(&c.fixture.file_path, ROOT), c.fixture.line, c.cycle_path.clone()))
                        .collect();
                    v.sort();
                    v
                };
                let c1 = cyc(&db);
                // per-file view must partition the global list
                let mut per_file: Vec<(String, usize, Vec<String>)> = Vec::new();
                for f in 0..ws.files.len() {
                    for c in db.detect_fixture_cycles_in_file(&ws.path(f)) {
                        per_file.push((rel(&c.fixture.file_path, ROOT), c.fixture.line, c.cycle_path.clone()));
                    }
                }
                per_file.sort();
                let mut mm: Vec<(String, String)> = Vec::new();
                for f in 0..ws.files.len() {
                    for x in db.detect_scope_mismatches_in_file(&ws.path(f)) {
                        mm.push((def_key(&x.fixture, ROOT), def_key(&x.dependency, ROOT)));
                    }
                }
                mm.sort();
                // recomputation after cache invalidation: re-analyse one file with the same text
                db.analyze_file(ws.path(order[0]), &r.texts[order[0]]);
                let c2 = cyc(&db);
                let same = {
                    // re-analysis moves the file's definitions to the end of the per-name vectors;
                    // compare as sets of (attachment, path) only when no name is defined twice
                    c1 == c2 && per_file == c1
                };
                (c1, mm, same)
                    };
                    body()
                })
                .collect::<Vec<_>>()
        };
        let results = if isolate {
            crate::seed::on_fresh_thread_seeded(seed, run_all)
        } else {
            run_all()
        };
        for (order, (cycles, mms, recomputed_same)) in perms.iter().zip(results.into_iter()) {
            let order: Vec<usize> = order.clone();
            t.dbs.fetch_add(1, Ordering::Relaxed);
            t.evals.fetch_add(3, Ordering::Relaxed);
            let case = || json!({"case": {"ws": ws, "order": order, "fresh": false}, "graph": g, "seed": seed});
            if !recomputed_same {
                viol(
                    format!("cycle report changes on recomputation / per-file view differs [{}]", ctx),
                    &|| format!("graph {:?} order {:?}: cycles {:?}", g, order, cycles),
                    &case,
                );
            }
            // (1) every reported path is a closed chain of definitions
            let mut covered: BTreeSet<DefId> = BTreeSet::new();
            for (f, line, path) in &cycles {
                let start = def_of(&ws, &r, f, *line);
                let walk = start.and_then(|s| m.closed_walk(&ws, s, path));
                match walk {
                    None => {
                        let kind = if path.len() == 2 { "self-loop" } else { "multi-node" };
                        viol(
                            format!("reported cycle is not a real dependency chain ({}) [{}]", kind, ctx),
                            &|| format!("reported {:?} attached to {}:{} — not a closed walk over resolved dependencies; graph {:?}", path, f, line, g),
                            &case,
                        );
                    }
                    Some(nodes) => covered.extend(nodes),
                }
            }
            // (2) every dependency cycle is reported: each cyclic SCC at least once, and every
            //     definition lying on a cycle is a member of at least one reported cycle
            for scc in sccs.iter() {
                if scc.is_disjoint(&covered) {
                    let kind = if scc.len() == 1 { "self-loop" } else { "multi-node" };
                    viol(
                        format!("dependency cycle not reported ({}) [{}]", kind, ctx),
                        &|| format!("cycle through {:?} is not reported (reported: {:?}); graph {:?}", scc.iter().map(|d| ws.describe_def(*d)).collect::<Vec<_>>(), cycles, g),
                        &case,
                    );
                }
            }
            let uncovered: Vec<DefId> = m.on_cycle().difference(&covered).cloned().collect();
            if !uncovered.is_empty() && !sccs.iter().any(|s| s.is_disjoint(&covered)) {
                viol(
                    format!("a fixture on a dependency cycle is in no reported cycle [{}]", ctx),
                    &|| format!("{:?} lie on a cycle but appear in no reported cycle (reported: {:?}); graph {:?}", uncovered.iter().map(|d| ws.describe_def(*d)).collect::<Vec<_>>(), cycles, g),
                    &case,
                );
            }
            // (4) scope mismatches exact
            let got_mm: BTreeSet<(String, String)> = mms.iter().cloned().collect();
            let want: BTreeSet<(String, String)> = want_mm
                .iter()
                .map(|(a, b)| {
                    let la = r.defs.iter().find(|x| x.id == *a).unwrap();
                    let lb = r.defs.iter().find(|x| x.id == *b).unwrap();
                    (
                        format!("{}:{}:{}", ws.files[a.file].rel, la.line, ws.name_of(*a)),
                        format!("{}:{}:{}", ws.files[b.file].rel, lb.line, ws.name_of(*b)),
                    )
                })
                .collect();
            if got_mm != want {
                let extra: Vec<_> = got_mm.difference(&want).collect();
                let missing: Vec<_> = want.difference(&got_mm).collect();
                let kind = if !extra.is_empty() && !missing.is_empty() { "wrong-dependency-definition" } else if !extra.is_empty() { "spurious" } else { "missing" };
                viol(
                    format!("scope mismatch {} [{}]", kind, ctx),
                    &|| format!("scope mismatches: spurious {:?}, missing {:?}; graph {:?} order {:?}", extra, missing, g, order),
                    &case,
                );
            }
            let canon: BTreeSet<String> = cycles.iter().map(|(f, l, p)| format!("{}:{} {:?}", f, l, p)).collect();
            reports.entry(format!("{:?}", canon)).or_default().insert(format!("order={:?} seed={}", order, seed));
        }
    }
    // (5) stability across registration orders and hash seeds
    if reports.len() > 1 {
        let only_seed = {
            // does the report vary with the seed alone (same order)?
            let mut by_order: BTreeMap<String, BTreeSet<&String>> = BTreeMap::new();
            for (rep_s, variants) in &reports {
                for v in variants {
                    let o = v.split(" seed=").next().unwrap().to_string();
                    by_order.entry(o).or_default().insert(rep_s);
                }
            }
            by_order.values().any(|s| s.len() > 1)
        };
        viol(
            format!("reported cycles / attachment vary between runs (varies_with_hash_seed_alone={}) [{}]", only_seed, ctx),
            &|| format!("graph {:?}: {} different reports: {:?}", g, reports.len(), reports),
            &|| json!({"graph": g, "reports": reports}),
        );
    }
}

pub fn run(rep: &'static Report) {
    let thorough = is_thorough();
    let seeds: Vec<u64> = if thorough { (0..6).collect() } else { (0..2).collect() };
    let mut graphs: Vec<Graph> = Vec::new();
    // (A) default scopes, up to 3 slots, dependency lists of up to 2 names
    let d2 = dep_options(2);
    let d1 = dep_options(1);
    for set in slot_sets(3) {
        let n = set.len();
        let mut idx = vec![0usize; n];
        // quick: 3-slot graphs with at most one dependency per slot, smaller ones with two
        let distinct_names = {
            let mut ns: Vec<usize> = set.iter().map(|x| x.0).collect();
            ns.sort();
            ns.dedup();
            ns.len() == n
        };
        let d2: &Vec<Vec<usize>> = if n == 3 && !thorough && !distinct_names { &d1 } else { &d2 };
        loop {
            graphs.push(Graph {
                slots: set.iter().enumerate().map(|(i, &(name, file))| Slot { name, file, deps: d2[idx[i]].clone(), scope: Scope::Function }).collect(),
            });
            let mut k = 0;
            while k < n {
                idx[k] += 1;
                if idx[k] < d2.len() {
                    break;
                }
                idx[k] = 0;
                k += 1;
            }
            if k == n {
                break;
            }
        }
    }
    let n_a = graphs.len();
    // (B) scope assignments: up to 3 slots, at most one dependency each, every scope vector
    let scopes3: Vec<Scope> = if thorough { vec![Scope::Function, Scope::Module, Scope::Session] } else { vec![Scope::Function, Scope::Session] };
    for set in slot_sets(3) {
        let n = set.len();
        // every scope for graphs of up to two definitions, a scope subset for three
        let scopes: Vec<Scope> = if n == 3 { scopes3.clone() } else { Scope::ALL.to_vec() };
        let mut idx = vec![0usize; n];
        loop {
            if idx.iter().any(|&i| !d1[i].is_empty()) {
                let mut sidx = vec![0usize; n];
                loop {
                    if sidx.iter().any(|&s| s != 0) {
                        graphs.push(Graph {
                            slots: set.iter().enumerate().map(|(i, &(name, file))| Slot { name, file, deps: d1[idx[i]].clone(), scope: scopes[sidx[i]] }).collect(),
                        });
                    }
                    let mut k = 0;
                    while k < n {
                        sidx[k] += 1;
                        if sidx[k] < scopes.len() {
                            break;
                        }
                        sidx[k] = 0;
                        k += 1;
                    }
                    if k == n {
                        break;
                    }
                }
            }
            let mut k = 0;
            while k < n {
                idx[k] += 1;
                if idx[k] < d1.len() {
                    break;
                }
                idx[k] = 0;
                k += 1;
            }
            if k == n {
                break;
            }
        }
    }
    let n_b = graphs.len() - n_a;
    // (C) thorough: 4 slots, at most one dependency each, default scopes
    if thorough {
        for set in slot_sets(4).into_iter().filter(|s| s.len() == 4) {
            let mut idx = vec![0usize; 4];
            loop {
                graphs.push(Graph {
                    slots: set.iter().enumerate().map(|(i, &(name, file))| Slot { name, file, deps: d1[idx[i]].clone(), scope: Scope::Function }).collect(),
                });
                let mut k = 0;
                while k < 4 {
                    idx[k] += 1;
                    if idx[k] < d1.len() {
                        break;
                    }
                    idx[k] = 0;
                    k += 1;
                }
                if k == 4 {
                    break;
                }
            }
        }
    }
    let n_c = graphs.len() - n_a - n_b;
    let t = Tally { graphs: AtomicU64::new(0), dbs: AtomicU64::new(0), cyclic: AtomicU64::new(0), mismatch_expected: AtomicU64::new(0), evals: AtomicU64::new(0) };
    // scope graphs (B) need no seed sweep (scope check is seed independent): use one seed there
    let one = vec![0u64];
    par_batches(&graphs, 256, |i, g| {
        let ab = i < n_a || i >= n_a + n_b;
        let s: &[u64] = if ab && (thorough || g.slots.len() < 3) { &seeds } else { &one };
        check_graph(rep, &t, g, s, ab);
        if i % 50021 == 11 {
            rep.sample(json!({"graph": g, "files": g.to_ws().render().texts}));
        }
    });
    rep.set("evaluations", t.evals.load(Ordering::Relaxed));
    rep.set("graphs", json!({"default_scope_upto3slots_upto2deps": n_a, "scoped_upto3slots_upto1dep": n_b, "four_slots_upto1dep": n_c}));
    rep.set("databases_built", t.dbs.load(Ordering::Relaxed));
    rep.set("states", t.graphs.load(Ordering::Relaxed));
    rep.set("transitions", t.dbs.load(Ordering::Relaxed) * 4 + t.evals.load(Ordering::Relaxed));
    rep.set("distinct_nontrivial", t.cyclic.load(Ordering::Relaxed));
    rep.set("expected_scope_mismatch_pairs", t.mismatch_expected.load(Ordering::Relaxed));
    rep.set("traces_validated_against_impl", t.dbs.load(Ordering::Relaxed));
    rep.set("hash_seeds_swept", json!(seeds));
    rep.set("exhaustive", true);
    rep.set("rule", "definition slots = name ∈ {a,b,c} × file ∈ {conftest.py, s/conftest.py, s/test_t.py}; (A) every set of ≤3 slots × every dependency list of ≤2 names out of {a,b,c,unknown} per slot (quick: for 3-slot sets ≤2 names only when the three names are distinct, else ≤1); (B) every set of ≤3 slots × ≤1 dependency each × every non-default scope vector (all 5 scopes for ≤2 slots; for 3 slots {function, session} quick, {function, module, session} thorough); (C, thorough) every set of 4 slots × ≤1 dependency each; each graph under all 6 analysis orders of the three files and (A, C) a sweep of hash seeds (labelled sweep, not exhaustive); oracle = reference graph over definitions (edges by PytestLookup, self-request without parent = self-loop): reported paths are closed walks, every cyclic SCC reported and every definition on a cycle is a member of some reported cycle, scope mismatches exactly the narrower resolved dependencies, reports identical across orders, seeds and recomputation; states = graphs, non-trivial = graphs with a cycle");
    rep.assume("the hash-seed dimension is a sweep over the listed seeds (2^128 keys cannot be enumerated)");
}
