//! C18 — completion offers exactly the usable fixtures, only where they can be requested.
//! Generated documents with per-line ground truth (oracle/gen_c18.py) × every line × the real
//! completion handler in a workspace with same-file / conftest / plugin / third-party fixtures of
//! all scopes, a shadowed name and a non-visible sibling fixture.

use crate::e4::{generate, report_findings, Finding};
use crate::lsp::Lsp;
use crate::report::{is_thorough, par_batches, Report};
use pytest_language_server::FixtureDatabase;
use serde_json::{json, Value};
use std::collections::{BTreeMap, BTreeSet};
use std::path::PathBuf;
use std::sync::{Arc, Mutex};

const ROOT: &str = "/nonexistent/ws";

fn scope_rank(s: &str) -> u8 {
    match s {
        "function" => 0,
        "class" => 1,
        "module" => 2,
        "package" => 3,
        _ => 4,
    }
}

fn conftest_text() -> String {
    let mut s = String::from("import pytest\n\n");
    for sc in ["function", "class", "module", "package", "session"] {
        s.push_str(&format!("@pytest.fixture(scope=\"{}\")\ndef c_{}():\n    return 1\n\n", sc, sc));
    }
    s.push_str("@pytest.fixture\ndef shadow():\n    return 1\n");
    s
}

/// (name -> (scope, priority)) visible from the document location, before document-local fixtures
fn workspace_visible(sub: bool) -> BTreeMap<String, (String, u8)> {
    let mut m = BTreeMap::new();
    for sc in ["function", "class", "module", "package", "session"] {
        m.insert(format!("c_{}", sc), (sc.to_string(), 1));
    }
    m.insert("shadow".into(), ("function".into(), 1));
    m.insert("p_fix".into(), ("function".into(), 2));
    m.insert("tp_fix".into(), ("session".into(), 3));
    if sub {
        m.insert("sub_fix".into(), ("function".into(), 1));
        m.insert("c_module".into(), ("function".into(), 1)); // overridden with a narrower scope
        // the sub-directory conftest also overrides the plugin and the third-party fixture
        m.insert("p_fix".into(), ("function".into(), 1));
        m.insert("tp_fix".into(), ("function".into(), 1));
    }
    m
}

const OTHER_DOC: &str = "import pytest\n\ndef test_other(sub_fix):\n    pass\n";

fn build_db(_sub: bool) -> Arc<FixtureDatabase> {
    let db = Arc::new(FixtureDatabase::new());
    let p = |r: &str| PathBuf::from(format!("{}/{}", ROOT, r));
    db.plugin_fixture_files.insert(p("plug/p.py"), ());
    db.plugin_fixture_files.insert(p(".venv/lib/python3.11/site-packages/tp/plugin.py"), ());
    db.analyze_file(p("conftest.py"), &conftest_text());
    db.analyze_file(p("zsib/conftest.py"), "import pytest\n\n@pytest.fixture\ndef sib_fix():\n    return 1\n");
    db.analyze_file(p("plug/p.py"), "import pytest\n\n@pytest.fixture\ndef p_fix():\n    return 1\n");
    db.analyze_file(p(".venv/lib/python3.11/site-packages/tp/plugin.py"), "import pytest\n\n@pytest.fixture(scope=\"session\")\ndef tp_fix():\n    return 1\n");
    // the sub-directory (always part of the workspace; only documents located there see it)
    db.analyze_file(p("sub/conftest.py"), "import pytest\n\n@pytest.fixture\ndef c_module():\n    return 1\n\n@pytest.fixture\ndef sub_fix():\n    return 1\n\n@pytest.fixture\ndef p_fix():\n    return 1\n\n@pytest.fixture\ndef tp_fix():\n    return 1\n");
    db.analyze_file(p("sub/test_other.py"), OTHER_DOC);
    db
}

fn observe(ci: usize, case: &Value, out: &Mutex<Vec<Finding>>, evals: &std::sync::atomic::AtomicU64, other_first: bool, decoy_prev: bool) {
    let src = case["source"].as_str().unwrap_or("");
    let exp = &case["expected"];
    let sub = exp["location"] == 1 || exp["location"].as_u64() == Some(1);
    let path = PathBuf::from(format!("{}/{}test_doc.py", ROOT, if sub { "sub/" } else { "" }));
    let db = build_db(sub);
    let mut push = |what: String, detail: String| out.lock().unwrap().push(Finding { case_index: ci, what, detail });
    // a previously valid version first (the document without its unfinished tail), then the text itself
    if decoy_prev {
        // the previous (valid) version of the document had a different line layout: every line of it
        // lies in the signature or body of some test that declares `shadow` — nothing of that version
        // may show through in the answers for the current text
        let n = src.split('\n').count() + 6;
        let mut decoy = String::from("import pytest\n");
        for k in 0..n {
            decoy.push_str(&format!("def test_decoy{}(shadow):\n    pass\n", k));
        }
        db.analyze_file(path.clone(), &decoy);
    } else if exp["valid"] != true {
        let lines: Vec<&str> = src.split('\n').collect();
        let mut n = lines.len();
        while n > 0 && rustpython_ok(&lines[..n].join("\n")).is_none() {
            n -= 1;
        }
        db.analyze_file(path.clone(), &(lines[..n].join("\n") + "\n"));
    }
    if std::panic::catch_unwind(std::panic::AssertUnwindSafe(|| db.analyze_file(path.clone(), src))).is_err() {
        push("analysis panicked".into(), String::new());
        return;
    }
    let mut visible = workspace_visible(sub);
    // (after the decoy version the document's own fixtures are unknown: its current text does not
    // parse and its last valid version defined none)
    for lf in exp["local_fixtures"].as_array().unwrap().iter().filter(|_| !decoy_prev) {
        visible.insert(lf[0].as_str().unwrap().to_string(), (lf[1].as_str().unwrap().to_string(), 0));
    }
    let lsp = Lsp::new(db.clone(), None);
    if other_first {
        // a completion request from a document in another directory (different visible set) first:
        // whatever it warms up must not leak into this document's answers
        let other = PathBuf::from(format!("{}/{}test_other.py", ROOT, if sub { "" } else { "sub/" }));
        if !sub {
            let _ = lsp.completion(&other, 2, 15, None);
        } else {
            db.analyze_file(other.clone(), OTHER_DOC);
            let _ = lsp.completion(&other, 2, 15, None);
        }
    }
    for l in exp["lines"].as_array().unwrap() {
        let cls = l["cls"].as_str().unwrap_or("");
        if cls == "unjudged" {
            continue;
        }
        let (line, col) = (l["line"].as_u64().unwrap() as u32, l["col"].as_u64().unwrap() as u32);
        evals.fetch_add(1, std::sync::atomic::Ordering::Relaxed);
        let items = match lsp.completion(&path, line, col, None) {
            Ok(i) => i.unwrap_or_default(),
            Err(p) => {
                push("completion panicked".into(), p);
                continue;
            }
        };
        let labels: Vec<String> = items.iter().map(|i| i.label.clone()).collect();
        let got: BTreeSet<String> = labels.iter().cloned().collect();
        let text_line = src.split('\n').nth(line as usize).unwrap_or("");
        if got.len() != labels.len() {
            push("a name is offered twice".into(), format!("line {} `{}`: {:?}", line, text_line, labels));
        }
        let want: BTreeSet<String> = match cls {
            "none" => BTreeSet::new(),
            "usefixtures" | "parametrize" => visible.keys().cloned().collect(),
            _ => {
                let declared: Vec<String> = l["declared"].as_array().unwrap().iter().map(|x| x.as_str().unwrap().to_string()).collect();
                let is_fx = l["is_fixture"] == true;
                let own = l["func"].as_str().unwrap_or("").to_string();
                let sc = l["scope"].as_str().map(scope_rank);
                visible
                    .iter()
                    .filter(|(n, (s, _))| !declared.contains(n) && !(is_fx && **n == own) && !(is_fx && sc.is_some_and(|c| scope_rank(s) < c)))
                    .map(|(n, _)| n.clone())
                    .collect()
            }
        };
        if got != want {
            let extra: Vec<&String> = got.difference(&want).collect();
            let missing: Vec<&String> = want.difference(&got).collect();
            let kind = if cls == "none" {
                "offered where no fixture can be requested".to_string()
            } else if got.is_empty() {
                format!("nothing offered in a {} context", cls)
            } else {
                let mut k = Vec::new();
                if extra.iter().any(|n| n.as_str() == "sib_fix") {
                    k.push("offers a non-visible fixture");
                }
                if !extra.is_empty() {
                    k.push("offers names it should filter");
                }
                if !missing.is_empty() {
                    k.push("omits usable fixtures");
                }
                format!("{} context: {}", cls, k.join(" + "))
            };
            push(kind, format!("line {} col {} `{}`: extra {:?}, missing {:?}", line, col, text_line, extra, missing));
        }
        // sort groups: same file < conftest < plugin < third-party
        for it in &items {
            if let (Some(st), Some((_, pr))) = (&it.sort_text, visible.get(&it.label)) {
                if !st.starts_with(&format!("{}_", pr)) {
                    push("sort group differs from the fixture's origin".into(), format!("{}: sortText {:?}, expected group {}", it.label, st, pr));
                }
            }
        }
    }
}

fn rustpython_ok(text: &str) -> Option<()> {
    // validity as the server sees it: analysis records module-level names only after a successful parse
    let db = FixtureDatabase::new();
    let p = PathBuf::from("/nonexistent/probe/test_probe.py");
    db.analyze_file(p.clone(), text);
    if db.imports.contains_key(&p) {
        Some(())
    } else {
        None
    }
}

pub fn run(rep: &'static Report) {
    let thorough = is_thorough();
    let k = if thorough { 4 } else { 3 };
    let cases = generate("gen_c18.py", k, &[]);
    let findings: Mutex<Vec<Finding>> = Mutex::new(Vec::new());
    let evals = std::sync::atomic::AtomicU64::new(0);
    par_batches(&cases, 16, |i, c| {
        if c.get("expected").is_some() {
            observe(i, c, &findings, &evals, false, false);
            observe(i, c, &findings, &evals, true, false);
            if c["expected"]["valid"] != true {
                observe(i, c, &findings, &evals, false, true);
            }
        }
    });
    let f = findings.into_inner().unwrap();
    let counts = report_findings(rep, &cases, f);
    let e = evals.load(std::sync::atomic::Ordering::Relaxed);
    rep.set("evaluations", e);
    rep.set("documents", cases.len() as u64);
    rep.set("lines_judged", e);
    rep.set("states", cases.len() as u64);
    rep.set("transitions", e);
    rep.set("distinct_nontrivial", cases.iter().filter(|c| c["dims"].as_object().is_some_and(|o| !o.is_empty())).count() as u64);
    rep.set("traces_validated_against_impl", e);
    rep.set("max_deviations", k as u64);
    rep.set("finding_counts", json!(counts));
    rep.set("exhaustive", true);
    if let Some(c) = cases.iter().find(|c| c["dims"].as_object().is_some_and(|o| o.len() == 2)) {
        rep.sample(json!({"dims": c["dims"], "source": c["source"]}));
    }
    rep.set("rule", "documents assembled from blocks whose every line has a known completion class (13 dimensions: scope of the fixture being edited, signature layout, declared parameters, class nesting, async, extra decorators, body shape, usefixtures forms, parametrize, 13 unfinished signature/decorator tails, document location, name collision with a conftest fixture, multi-line decorator calls and module-level multi-line calls / lists between and after the functions, defaulted parameters named like fixtures; ≤ max_deviations off-default); EVERY judged line is queried at its canonical column (inside the parentheses on signature/decorator lines, end of line in bodies, column 0 at module level) through the real completion handler (once on a fresh server, once after a completion request from a document in another directory with a different visible set, and — unfinished documents — once more after a previous valid version with a different line layout whose every line lay inside a test's signature or body) in a workspace with same-file, conftest (all five scopes), plugin, third-party, shadowed and non-visible sibling fixtures; expected = no items outside signature/body/usefixtures/indirect-parametrize contexts, else visible − declared − the fixture being edited − (inside a fixture) narrower scopes, each label once, sort groups same-file < conftest < plugin < third-party");
    rep.assume("the generator is the ground truth for line classes; blank lines between functions, nested helper functions, parametrize without indirect and `def test_x` without parenthesis are not judged; an unfinished document is analysed after its last valid version");
}

pub fn replay(v: &Value) {
    println!("{}", v["source"].as_str().unwrap_or(""));
    println!("dims: {}", v["dims"]);
    println!("recorded detail: {}", v["detail"].as_str().unwrap_or(""));
}
