//! C12 — every operation terminates: no deadlock, no unbounded looping.
//! (a) lock discipline under the controlled scheduler with every key of a map forced into one
//!     shard: (i) single-thread sweep of every public operation, (ii)/(iii) concurrent mixes of
//!     scan worker, editor and request threads under every schedule up to the preemption bound;
//! (b) exhaustive small cyclic import graphs / dependency graphs under a watchdog.

use crate::checks::c09::{explore_scenario, set_placement};
use crate::e1::{analyze, analyze_fresh, describe, install_file_lock_hook, lock_names, p, Op, Scenario};
use crate::e5::{write_file, Scratch};
use crate::layouts::{Conf, Layout};
use crate::lsp::{whole_doc_range, Lsp};
use crate::report::{is_thorough, Report};
use crate::ws::{FileSpec, Item, Ws, ROOT};
use pytest_language_server::FixtureDatabase;
use serde_json::{json, Value};
use std::collections::BTreeSet;
use std::path::PathBuf;
use std::sync::{Arc, Mutex};
use std::time::Duration;

// ------------------------------------------------------------------ (a)(i) sequential sweep

/// Every public operation on one database; `cur` receives the description of the running one.
fn sweep_ops(db: &Arc<FixtureDatabase>, files: &[(PathBuf, String)], cur: &Mutex<String>, count: &mut u64) {
    let lsp = Lsp::new(db.clone(), None);
    let set = |s: String| *cur.lock().unwrap() = s;
    // analysis paths (re-analysis with the same text, then via the scan path on a new name)
    for (pth, text) in files {
        set(format!("analyze_file({:?})", pth));
        db.analyze_file(pth.clone(), text);
        *count += 1;
    }
    for (pth, text) in files {
        let positions: Vec<(u32, u32)> = {
            let mut v = Vec::new();
            for (li, l) in text.lines().enumerate() {
                let mut cols: BTreeSet<usize> = [0usize, l.len() / 2, l.len()].into_iter().collect();
                for (i, ch) in l.char_indices() {
                    if ch == '(' || ch == '"' || ch == ',' {
                        cols.insert(i + 1);
                        cols.insert(i + 2);
                    }
                }
                if let Some(i) = l.find("def ") {
                    cols.insert(i + 4);
                }
                for c in cols {
                    v.push((li as u32, c as u32));
                }
            }
            v
        };
        for (l, c) in positions {
            macro_rules! op {
                ($name:expr, $e:expr) => {{
                    set(format!("{} at {:?}:{}:{}", $name, pth, l, c));
                    let _ = $e;
                    *count += 1;
                }};
            }
            op!("definition", lsp.goto_definition(pth, l, c));
            op!("implementation", lsp.goto_implementation(pth, l, c));
            op!("hover", lsp.hover(pth, l, c));
            op!("references", lsp.references(pth, l, c));
            op!("completion", lsp.completion(pth, l, c, None));
            if let Ok(Some(items)) = { set(format!("prepareCallHierarchy at {:?}:{}:{}", pth, l, c)); lsp.prepare_call_hierarchy(pth, l, c) } {
                for it in items {
                    op!("incomingCalls", lsp.incoming_calls(it.clone()));
                    op!("outgoingCalls", lsp.outgoing_calls(it.clone()));
                }
            }
            *count += 1;
        }
        macro_rules! fop {
            ($name:expr, $e:expr) => {{
                set(format!("{} on {:?}", $name, pth));
                let _ = $e;
                *count += 1;
            }};
        }
        fop!("codeLens", lsp.code_lens(pth));
        fop!("inlayHint", lsp.inlay_hint(pth, whole_doc_range()));
        fop!("documentSymbol", lsp.document_symbol(pth));
        fop!("get_available_fixtures", db.get_available_fixtures(pth));
        fop!("get_undeclared_fixtures", db.get_undeclared_fixtures(pth));
        fop!("detect_fixture_cycles_in_file", db.detect_fixture_cycles_in_file(pth));
        fop!("detect_scope_mismatches_in_file", db.detect_scope_mismatches_in_file(pth));
        fop!("is_fixture_imported_in_file", db.is_fixture_imported_in_file("fx", pth));
        fop!("codeAction", {
            let diags: Vec<tower_lsp_server::ls_types::Diagnostic> = db
                .get_undeclared_fixtures(pth)
                .iter()
                .map(|u| tower_lsp_server::ls_types::Diagnostic {
                    range: tower_lsp_server::ls_types::Range {
                        start: tower_lsp_server::ls_types::Position { line: (u.line - 1) as u32, character: u.start_char as u32 },
                        end: tower_lsp_server::ls_types::Position { line: (u.line - 1) as u32, character: u.end_char as u32 },
                    },
                    code: Some(tower_lsp_server::ls_types::NumberOrString::String("undeclared-fixture".into())),
                    ..Default::default()
                })
                .collect();
            lsp.code_action(pth, diags)
        });
        fop!("cleanup_file_cache + re-analysis", {
            db.cleanup_file_cache(pth);
            db.analyze_file(pth.clone(), text)
        });
    }
    set("workspace/symbol".into());
    let _ = lsp.workspace_symbol("");
    set("detect_fixture_cycles".into());
    let _ = db.detect_fixture_cycles();
    set("get_unused_fixtures".into());
    let _ = db.get_unused_fixtures();
    set("print_fixtures_tree".into());
    *count += 3;
}

fn sweep_workspaces() -> Vec<Ws> {
    let mut v = Vec::new();
    for (levels, own, dis) in [
        (vec![Conf::Star, Conf::Overrides], 2usize, [true, true, true, true, true]),
        (vec![Conf::Explicit, Conf::Defines, Conf::Plugins], 1, [false, true, false, true, true]),
        (vec![Conf::Plugins, Conf::Star], 0, [true, false, true, false, false]),
    ] {
        v.push(Layout { levels, own_defs: own, distractors: dis, rich: true }.to_ws());
    }
    // dependency cycle + undeclared usage + import cycle
    v.push(Ws { files: vec![
        FileSpec::new("conftest.py", vec![Item::StarImport { module: "m1".into() }, Item::fixture("a", &["b"]), Item::fixture("b", &["a"]), Item::fixture("fx", &["fx"])]),
        FileSpec::new("m1.py", vec![Item::StarImport { module: "m2".into() }, Item::fixture("hx", &[])]),
        FileSpec::new("m2.py", vec![Item::StarImport { module: "m1".into() }, Item::PytestPlugins { modules: vec!["m2".into()] }, Item::fixture("kx", &["hx"])]),
        FileSpec::new("test_u.py", vec![Item::test("p", &["a", "hx", "kx", "fx"]), Item::Raw("def test_body():\n    assert hx\n    kx.y()\n".into())]),
    ] });
    v
}

/// Run the whole sweep in ONE model thread per workspace; a same-thread conflicting
/// re-acquisition is a deadlock state of the scheduler (no thread enabled).
fn sequential_sweep(rep: &Report, placement: &str, edges: &Mutex<BTreeSet<String>>) -> (u64, u64) {
    let mut ops_total = 0u64;
    let mut points_total = 0u64;
    for (wi, ws) in sweep_workspaces().into_iter().enumerate() {
        install_file_lock_hook();
        let r = ws.render();
        let files: Vec<(PathBuf, String)> = (0..ws.files.len()).map(|i| (ws.path(i), r.texts[i].clone())).collect();
        let cur = Arc::new(Mutex::new(String::new()));
        let count = Arc::new(Mutex::new(0u64));
        let (cur2, count2, files2, ws2) = (cur.clone(), count.clone(), files.clone(), ws.clone());
        let out = crate::seed::on_fresh_thread(move || {
            let db = Arc::new(FixtureDatabase::new());
            for (i, f) in ws2.files.iter().enumerate() {
                if f.plugin || f.is_third_party() {
                    db.plugin_fixture_files.insert(ws2.path(i), ());
                }
            }
            for (pth, text) in &files2 {
                db.analyze_file(pth.clone(), text);
            }
            let names = lock_names(&db);
            let body: vsched::Body = Box::new(move || {
                let mut c = 0u64;
                sweep_ops(&db, &files2, &cur2, &mut c);
                *count2.lock().unwrap() = c;
            });
            vsched::run_execution(vec![body], vsched::ExecConfig { light: true, choices: vec![], horizon: usize::MAX, lock_names: names, watchdog: Duration::from_secs(20) })
        });
        ops_total += *count.lock().unwrap();
        points_total += out.points as u64;
        for e in &out.edges {
            edges.lock().unwrap().insert(format!("{}({:?}) -> {}({:?})", e.0.split('#').next().unwrap(), e.1, e.2.split('#').next().unwrap(), e.3));
        }
        let case = || json!({"sweep_workspace": wi, "placement": placement, "operation": cur.lock().unwrap().clone(), "files": ws.files.iter().map(|f| f.rel.clone()).collect::<Vec<_>>()});
        match &out.abort {
            Some(vsched::Abort::Deadlock(d)) => {
                let op = cur.lock().unwrap().clone();
                let kind = op.split(' ').next().unwrap_or("").to_string();
                rep.violation(&format!("self-deadlock in a single thread [{}]: {}", placement, kind), &format!("operation `{}` re-acquires a shard lock it already holds: {}", op, d), case);
            }
            Some(vsched::Abort::Unmodelled(m)) => rep.machinery_error(&format!("sweep: {}", m)),
            Some(a) => {
                rep.violation("sweep aborted", &format!("{:?}", a), case);
            }
            None => {}
        }
        if !out.panics.is_empty() {
            rep.violation("panic in the sequential sweep", &format!("{:?} during `{}`", out.panics, cur.lock().unwrap()), case);
        }
    }
    (ops_total, points_total)
}

/// Cache pressure in ONE model thread: more files than the file cache holds, so that the eviction
/// path runs inside `analyze_file`; queries and closes in between. A same-thread conflicting
/// re-acquisition is a deadlock state of the scheduler.
fn pressure_sweep(rep: &Report, placement: &str) -> (u64, u64) {
    install_file_lock_hook();
    let n = 2100usize;
    let count = Arc::new(Mutex::new(0u64));
    let cur = Arc::new(Mutex::new(String::new()));
    let (count2, cur2) = (count.clone(), cur.clone());
    // real files (only text that can be read back from disk is evicted)
    let sc = Scratch::new("c12p");
    let base = sc.path().to_string_lossy().to_string();
    for i in 0..n {
        write_file(sc.path(), &format!("d{}/test_e.py", i), "def test_e(ev):\n    pass\n");
    }
    let out = crate::seed::on_fresh_thread(move || {
        let db = Arc::new(FixtureDatabase::new());
        db.analyze_file(PathBuf::from(format!("{}/conftest.py", base)), "import pytest\n\n@pytest.fixture\ndef ev():\n    return 1\n");
        let names = lock_names(&db);
        let body: vsched::Body = Box::new(move || {
            let text = "def test_e(ev):\n    pass\n";
            for i in 0..n {
                let p = PathBuf::from(format!("{}/d{}/test_e.py", base, i));
                *cur2.lock().unwrap() = format!("analyze_file #{} (file cache holds {} entries)", i + 1, db.file_cache.len());
                db.analyze_file(p.clone(), text);
                *count2.lock().unwrap() += 1;
                if i % 500 == 499 || i >= 1995 && i < 2010 {
                    *cur2.lock().unwrap() = format!("queries after analyze_file #{}", i + 1);
                    let _ = db.get_available_fixtures(&p);
                    let _ = db.find_fixture_definition(&p, 0, 11);
                    let _ = db.detect_fixture_cycles();
                    *count2.lock().unwrap() += 3;
                }
                if i == 2050 {
                    *cur2.lock().unwrap() = "cleanup_file_cache after eviction".to_string();
                    db.cleanup_file_cache(&p);
                    *count2.lock().unwrap() += 1;
                }
            }
        });
        vsched::run_execution(vec![body], vsched::ExecConfig { light: true, choices: vec![], horizon: usize::MAX, lock_names: names, watchdog: Duration::from_secs(60) })
    });
    let case = || json!({"pressure_sweep": true, "placement": placement, "operation": cur.lock().unwrap().clone()});
    match &out.abort {
        Some(vsched::Abort::Deadlock(d)) => {
            let op = cur.lock().unwrap().clone();
            rep.violation(&format!("self-deadlock in a single thread under cache pressure [{}]", placement), &format!("operation `{}` re-acquires a shard lock it already holds: {}", op, d), case);
        }
        Some(vsched::Abort::Unmodelled(m)) => rep.machinery_error(&format!("pressure sweep: {}", m)),
        Some(a) => {
            rep.violation("pressure sweep aborted", &format!("{:?}", a), case);
        }
        None => {}
    }
    if !out.panics.is_empty() {
        rep.violation("panic in the pressure sweep", &format!("{:?} during `{}`", out.panics, cur.lock().unwrap()), case);
    }
    let c = *count.lock().unwrap();
    (c, out.points as u64)
}

// ------------------------------------------------------------------ (a)(ii) concurrent mixes

const CONF: &str = "import pytest\nfrom helper import *\n\n@pytest.fixture\ndef fx():\n    return 1\n\n@pytest.fixture(scope=\"session\")\ndef gx(fx) -> int:\n    return 2\n";
const CONF2: &str = "import pytest\n\n@pytest.fixture\ndef gx():\n    return 2\n";
const HELPER: &str = "import pytest\n\n@pytest.fixture\ndef hx():\n    return 1\n";
const HELPER2: &str = "import pytest\n\n@pytest.fixture\ndef hx():\n    return 1\n\n@pytest.fixture\ndef fx():\n    return 5\n";
const TEST: &str = "import pytest\n\n@pytest.fixture\ndef fx(fx):\n    return fx\n\ndef test_t(fx, gx, hx):\n    hx\n";
const NEWFILE: &str = "import pytest\n\n@pytest.fixture\ndef gx(fx):\n    return 3\n\ndef test_n(gx, fx):\n    pass\n";

fn request_ops() -> Vec<Op> {
    let t = p("test_t.py");
    let c = p("conftest.py");
    let mk = |desc: &str, f: Arc<dyn Fn(&Lsp) + Send + Sync>| Op {
        desc: desc.to_string(),
        f: Arc::new(move |db: &Arc<FixtureDatabase>| {
            let lsp = Lsp::new(db.clone(), None);
            f(&lsp)
        }),
    };
    let (t1, t2, t3, t4, t5, t6, t7, c1, c2, c3) = (t.clone(), t.clone(), t.clone(), t.clone(), t.clone(), t.clone(), t.clone(), c.clone(), c.clone(), c.clone());
    vec![
        mk("codeLens(conftest)", Arc::new(move |l| { let _ = l.code_lens(&c1); })),
        // `hx` reaches the test through the conftest's star import: the resolver's import branch
        mk("definition+references(imported fixture hx)", Arc::new(move |l| { let _ = l.goto_definition(&t1, 6, 20); let _ = l.references(&t1, 6, 20); })),
        mk("inlayHint(test file)", Arc::new(move |l| { let _ = l.inlay_hint(&t2, whole_doc_range()); })),
        mk("completion(test signature)", Arc::new(move |l| { let _ = l.completion(&t3, 6, 12, None); })),
        mk("prepare+incoming+outgoing(gx)", Arc::new(move |l| {
            if let Ok(Some(items)) = l.prepare_call_hierarchy(&c2, 8, 4) {
                for it in items {
                    let _ = l.incoming_calls(it.clone());
                    let _ = l.outgoing_calls(it);
                }
            }
        })),
        mk("definition+hover(self-named parameter)", Arc::new(move |l| { let _ = l.goto_definition(&t4, 3, 7); let _ = l.hover(&t4, 3, 7); })),
        mk("references(conftest fixture gx from its usage)", Arc::new(move |l| { let _ = l.references(&t6, 6, 16); })),
        mk("implementation+hover(imported fixture hx)", Arc::new(move |l| { let _ = l.goto_implementation(&t7, 6, 20); let _ = l.hover(&t7, 6, 20); })),
        Op { desc: "diagnostics collectors(test file)".into(), f: Arc::new(move |db| {
            let _ = db.get_undeclared_fixtures(&t5);
            let _ = db.detect_fixture_cycles_in_file(&t5);
            let _ = db.detect_scope_mismatches_in_file(&c3);
        }) },
    ]
}

fn mixes(thorough: bool) -> Vec<(Scenario, usize)> {
    let pre = vec![analyze("helper.py", HELPER), analyze("conftest.py", CONF), analyze("test_t.py", TEST)];
    let mut v = Vec::new();
    for rq in request_ops() {
        v.push((Scenario { name: format!("editor(conftest) ∥ {}", rq.desc), pre: pre.clone(), threads: vec![vec![analyze("conftest.py", CONF2)], vec![rq.clone()]] }, if thorough { 3 } else { 2 }));
        v.push((Scenario { name: format!("editor(star-imported helper) ∥ {}", rq.desc), pre: pre.clone(), threads: vec![vec![analyze("helper.py", HELPER2)], vec![rq.clone()]] }, if thorough { 3 } else { 2 }));
        v.push((Scenario { name: format!("scan worker(new file) ∥ {}", rq.desc), pre: pre.clone(), threads: vec![vec![analyze_fresh("sub/test_n.py", NEWFILE)], vec![rq.clone()]] }, if thorough { 3 } else { 1 }));
        if thorough {
            v.push((Scenario { name: format!("scan worker ∥ editor ∥ {}", rq.desc), pre: pre.clone(), threads: vec![vec![analyze_fresh("sub/test_n.py", NEWFILE)], vec![analyze("conftest.py", CONF2)], vec![rq.clone()]] }, 1));
        }
    }
    let rqs = request_ops();
    v.push((Scenario { name: "scan worker ∥ editor ∥ references".into(), pre: pre.clone(), threads: vec![vec![analyze_fresh("sub/test_n.py", NEWFILE)], vec![analyze("helper.py", HELPER2)], vec![rqs[1].clone()]] }, 1));
    v.push((Scenario { name: "two request threads (codeLens ∥ completion) ∥ editor".into(), pre, threads: vec![vec![rqs[0].clone()], vec![rqs[3].clone()], vec![analyze("conftest.py", CONF2)]] }, 1));
    v
}

// ------------------------------------------------------------------ (b) cyclic inputs under a watchdog

fn with_watchdog<T: Send + 'static>(secs: u64, f: impl FnOnce() -> T + Send + 'static) -> Option<T> {
    let (tx, rx) = std::sync::mpsc::channel();
    std::thread::Builder::new()
        .stack_size(64 << 20)
        .spawn(move || {
            let r = std::panic::catch_unwind(std::panic::AssertUnwindSafe(f));
            let _ = tx.send(r);
        })
        .expect("spawn");
    match rx.recv_timeout(Duration::from_secs(secs)) {
        Ok(Ok(v)) => Some(v),
        Ok(Err(_)) => None, // panics are C11's subject; here only termination counts
        Err(_) => None,
    }
}

fn cyclic_inputs(rep: &Report, thorough: bool) -> Value {
    let n = if thorough { 4usize } else { 3 };
    let mut import_graphs = 0u64;
    let kinds = ["star", "explicit", "plugins"];
    let timed_out = Mutex::new(0u64);
    // all import digraphs over n modules (self-loops included), uniform edge kind
    let graphs: Vec<(u32, usize)> = (0..(1u32 << (n * n))).flat_map(|m| (0..3).map(move |k| (m, k))).collect();
    let graphs: Vec<(u32, usize)> = if thorough { graphs.into_iter().filter(|(m, _)| m.count_ones() <= 6).collect() } else { graphs };
    crate::report::par_batches(&graphs, 64, |_i, (mask, kind)| {
        let mut files: Vec<FileSpec> = Vec::new();
        for a in 0..n {
            let mut items: Vec<Item> = Vec::new();
            for b in 0..n {
                if mask & (1 << (a * n + b)) != 0 {
                    let m = format!("m{}", b);
                    items.push(match kinds[*kind] {
                        "star" => Item::StarImport { module: m },
                        "explicit" => Item::ExplicitImport { module: m, names: vec!["fx".into(), format!("f{}", b)] },
                        _ => Item::PytestPlugins { modules: vec![m] },
                    });
                }
            }
            items.push(Item::fixture(&format!("f{}", a), &[]));
            if a == n - 1 {
                items.push(Item::fixture("fx", &[]));
            }
            files.push(FileSpec::new(&format!("m{}.py", a), items));
        }
        files.push(FileSpec::new("conftest.py", vec![Item::StarImport { module: "m0".into() }]));
        files.push(FileSpec::new("test_u.py", vec![Item::test("p", &["fx", "f0", "f1"])]));
        let ws = Ws { files };
        let r = ws.render();
        let (ws2, r2) = (ws.clone(), r.clone());
        let done = with_watchdog(10, move || {
            // in memory (virtual paths)
            let order: Vec<usize> = (0..ws2.files.len()).collect();
            let db = crate::db::build_db(&ws2, &r2, &order, false);
            for i in 0..ws2.files.len() {
                let pth = ws2.path(i);
                let mut visited = std::collections::HashSet::new();
                let _ = db.get_imported_fixtures(&pth, &mut visited);
                let _ = db.get_available_fixtures(&pth);
                let _ = db.is_fixture_imported_in_file("fx", &pth);
            }
            let t = ws2.file_index("test_u.py").unwrap();
            for u in r2.usages.iter().filter(|u| u.file == t) {
                let _ = db.find_fixture_definition(&ws2.path(t), (u.line - 1) as u32, u.start as u32);
            }
            let _ = db.detect_fixture_cycles();
            let _ = db.get_unused_fixtures();
            // on disk: the real scan (phase 4 follows the imports)
            let sc = Scratch::new("c12");
            for (i, f) in ws2.files.iter().enumerate() {
                write_file(sc.path(), &f.rel, &r2.texts[i]);
            }
            let db2 = FixtureDatabase::new();
            db2.scan_workspace(sc.path());
            let _ = db2.get_available_fixtures(&sc.path().join("test_u.py"));
            true
        });
        if done.is_none() {
            *timed_out.lock().unwrap() += 1;
            rep.violation(&format!("import graph: operation did not finish within 10 s ({} edges)", kinds[*kind]), &format!("import digraph mask {:b} over {} modules", mask, n), || json!({"ws": ws}));
        }
    });
    import_graphs += graphs.len() as u64;
    // all dependency digraphs over 3 (quick) / 4 (thorough, ≤6 edges) names, with and without an outer parent
    let m = if thorough { 4usize } else { 3 };
    let dgraphs: Vec<(u32, bool)> = (0..(1u32 << (m * m))).filter(|x| !thorough || x.count_ones() <= 6).flat_map(|x| [(x, false), (x, true)]).collect();
    crate::report::par_batches(&dgraphs, 64, |_i, (mask, parent)| {
        let names: Vec<String> = (0..m).map(|i| format!("d{}", i)).collect();
        let mut items = Vec::new();
        for a in 0..m {
            let deps: Vec<&str> = (0..m).filter(|b| mask & (1 << (a * m + b)) != 0).map(|b| names[b].as_str()).collect();
            items.push(Item::fixture(&names[a], &deps));
        }
        items.push(Item::test("t", &["d0"]));
        let mut files = vec![FileSpec::new("sub/test_d.py", items)];
        if *parent {
            files.push(FileSpec::new("conftest.py", (0..m).map(|i| Item::fixture(&names[i], &[])).collect()));
        }
        let ws = Ws { files };
        let r = ws.render();
        let (ws2, r2) = (ws.clone(), r.clone());
        let done = with_watchdog(10, move || {
            let order: Vec<usize> = (0..ws2.files.len()).collect();
            let db = Arc::new(crate::db::build_db(&ws2, &r2, &order, false));
            let _ = db.detect_fixture_cycles();
            let lsp = Lsp::new(db.clone(), None);
            for i in 0..ws2.files.len() {
                let pth = ws2.path(i);
                let _ = db.detect_fixture_cycles_in_file(&pth);
                let _ = db.detect_scope_mismatches_in_file(&pth);
                let _ = lsp.code_lens(&pth);
                for d in r2.defs.iter().filter(|d| d.id.file == i) {
                    if let Ok(Some(items)) = lsp.prepare_call_hierarchy(&pth, (d.line - 1) as u32, d.start as u32) {
                        for it in items {
                            let _ = lsp.incoming_calls(it.clone());
                            let _ = lsp.outgoing_calls(it);
                        }
                    }
                    let _ = lsp.references(&pth, (d.line - 1) as u32, d.start as u32);
                }
            }
            true
        });
        if done.is_none() {
            rep.violation("dependency graph: operation did not finish within 10 s", &format!("dependency digraph mask {:b}, parent {}", mask, parent), || json!({"ws": ws}));
        }
    });
    // directory chains (a sweep)
    let mut depths = vec![1usize, 8, 64, 256];
    if thorough {
        depths.push(1000);
    }
    for d in &depths {
        let dd = *d;
        let done = with_watchdog(30, move || {
            let db = FixtureDatabase::new();
            let dir: String = (0..dd).map(|i| format!("d{}/", i)).collect();
            db.analyze_file(PathBuf::from(format!("{}/conftest.py", ROOT)), CONF2);
            let t = PathBuf::from(format!("{}/{}test_deep.py", ROOT, dir));
            db.analyze_file(t.clone(), "def test_x(gx, nope):\n    pass\n");
            let _ = db.find_fixture_definition(&t, 0, 11);
            let _ = db.find_fixture_definition(&t, 0, 15);
            let _ = db.get_available_fixtures(&t);
            true
        });
        if done.is_none() {
            rep.violation("deep directory chain: operation did not finish", &format!("depth {}", d), || json!({"depth": d}));
        }
    }
    // import lattices: L layers of two modules, each star-importing both modules of the next layer; the last
    // layer imports the conftest again (a cycle through the whole lattice). The number of import PATHS doubles
    // with every layer; the walk has to terminate in time that does not (a sweep over L with a deadline)
    let layers: Vec<usize> = if thorough { vec![4, 8, 12, 16, 20, 24, 28] } else { vec![4, 8, 12, 16, 20, 24] };
    let mut lattice_ms: Vec<(usize, u128)> = Vec::new();
    for l in &layers {
        let ll = *l;
        let t0 = std::time::Instant::now();
        let done = with_watchdog(30, move || {
            let db = FixtureDatabase::new();
            let p = |n: String| PathBuf::from(format!("{}/{}", ROOT, n));
            for k in 0..ll {
                for side in ["a", "b"] {
                    let text = if k + 1 < ll {
                        format!("import pytest\nfrom a{} import *\nfrom b{} import *\n\n@pytest.fixture\ndef {}{}_fx():\n    return 1\n", k + 1, k + 1, side, k)
                    } else {
                        format!("import pytest\nfrom conftest import *\n\n@pytest.fixture\ndef {}{}_fx():\n    return 1\n", side, k)
                    };
                    db.analyze_file(p(format!("{}{}.py", side, k)), &text);
                }
            }
            db.analyze_file(p("conftest.py".into()), "from a0 import *\nfrom b0 import *\n");
            let t = p("test_l.py".into());
            db.analyze_file(t.clone(), &format!("def test_l(a{}_fx):\n    pass\n", ll - 1));
            let n = db.get_available_fixtures(&t).len();
            let d = db.find_fixture_definition(&t, 0, 11).is_some();
            (n, d)
        });
        let ms = t0.elapsed().as_millis();
        lattice_ms.push((ll, ms));
        match done {
            Some((n, d)) if n == 2 * ll && d => {}
            Some((n, d)) => {
                rep.violation("import lattice: wrong answer", &format!("{} layers: {} fixtures available (expected {}), deepest fixture resolves: {}", ll, n, 2 * ll, d), || json!({"layers": ll}));
            }
            None => {
                rep.violation("import lattice with a cycle back to the conftest: the walk did not finish within 30 s", &format!("{} layers (2 modules each); times so far (layers, ms): {:?}", ll, lattice_ms), || json!({"layers": ll, "times_ms": lattice_ms}));
                break;
            }
        }
    }
    json!({"import_digraphs": import_graphs, "modules": n, "dependency_digraphs": dgraphs.len(), "names": m, "directory_chain_depths_sweep": depths, "import_lattice_layers_and_ms": lattice_ms})
}

pub fn run(rep: &'static Report) {
    let thorough = is_thorough();
    let edges: Mutex<BTreeSet<String>> = Mutex::new(BTreeSet::new());
    let mut per: Vec<Value> = Vec::new();
    let (mut total_sched, mut total_points, mut total_states) = (0u64, 0u64, 0usize);
    let mut sweep_ops_total = 0u64;
    for (collide, pname) in [(true, "Collide"), (false, "Split")] {
        set_placement(collide);
        let (ops, pts) = sequential_sweep(rep, pname, &edges);
        sweep_ops_total += ops;
        total_points += pts;
        println!("  sequential sweep [{}]: {} operations, {} lock acquisitions, no self-deadlock reported above = none found", pname, ops, pts);
        let (pops, ppts) = pressure_sweep(rep, pname);
        sweep_ops_total += pops;
        total_points += ppts;
        println!("  cache-pressure sweep [{}]: {} operations (2100 files, eviction inside analysis), {} lock acquisitions", pname, pops, ppts);
        for (sc, bound) in mixes(thorough) {
            let stats = explore_scenario(rep, &sc, pname, bound, 2_000_000, &|r, choices| {
                let case = || json!({"scenario": describe(&sc), "placement": pname, "choices": choices, "trace": vsched::trace_to_strings(&r.outcome)});
                match &r.outcome.abort {
                    Some(vsched::Abort::Deadlock(d)) => {
                        rep.violation(&format!("deadlock: {}", sc.name), d, case);
                    }
                    Some(vsched::Abort::Horizon(n)) => {
                        rep.violation(&format!("horizon overrun (livelock?): {}", sc.name), &format!("{} points", n), case);
                    }
                    _ => {}
                }
                if !r.outcome.panics.is_empty() {
                    rep.violation(&format!("panic under concurrency: {}", sc.name), &format!("{:?}", r.outcome.panics), case);
                }
            });
            for e in &stats.edges {
                edges.lock().unwrap().insert(format!("{}({:?}) -> {}({:?})", e.0.split('#').next().unwrap(), e.1, e.2.split('#').next().unwrap(), e.3));
            }
            total_sched += stats.schedules;
            total_points += stats.points;
            total_states += stats.distinct_states;
            per.push(json!({"mix": sc.name, "placement": pname, "threads": sc.threads.len(), "preemption_bound_completed": bound, "schedules": stats.schedules, "scheduling_points": stats.points, "deadlocks": stats.deadlocks}));
        }
        println!("  concurrent mixes [{}]: {} schedules so far", pname, total_sched);
    }
    // negative control of the machinery: a thread that keeps a read guard on a map while inserting
    // another key into the same map (harness code, not the repository) must be reported as a
    // deadlock state when every key lands in one shard
    {
        set_placement(true);
        let bad = Scenario {
            name: "control: insert while holding a read guard of the same map".into(),
            pre: vec![analyze("conftest.py", CONF2)],
            threads: vec![vec![Op { desc: "CONTROL get + insert".into(), f: Arc::new(|db: &Arc<FixtureDatabase>| {
                let g = db.definitions.get("gx");
                db.definitions.insert("other_key".to_string(), vec![]);
                drop(g);
            }) }]],
        };
        let r = crate::e1::run_schedule(&bad, &[], 10_000);
        let caught = matches!(r.outcome.abort, Some(vsched::Abort::Deadlock(_)));
        rep.set("negative_control", json!({"scenario": bad.name, "reported_as_deadlock": caught}));
        if !caught {
            rep.machinery_error("negative control: a same-shard read→write re-acquisition was not reported as a deadlock state");
        }
    }
    // restore stock placement for part (b) (free-running threads)
    vsched::set_shard_amount(0);
    vsched::set_collide(false);
    let cyc = cyclic_inputs(rep, thorough);
    // potential lock-order cycles are reported as information only (a potential cycle can be
    // infeasible; realised deadlocks are what counts)
    let e: Vec<String> = edges.lock().unwrap().iter().cloned().collect();
    rep.set("lock_order_edges_observed", json!(e));
    rep.set("states", total_states as u64);
    rep.set("transitions", total_points);
    rep.set("evaluations", total_sched + sweep_ops_total);
    rep.set("schedules", total_sched);
    rep.set("sequential_sweep_operations", sweep_ops_total);
    rep.set("cyclic_inputs", cyc);
    rep.set("distinct_nontrivial", per.len() as u64);
    rep.set("traces_validated_against_impl", total_sched + sweep_ops_total);
    rep.set("per_mix", json!(per));
    rep.set("exhaustive", true);
    rep.sample(json!({"mix": per.first()}));
    rep.set("rule", "(a) with every key of each map forced into one shard (Collide) and with 2 shards by hash (Split): (i) one model thread executes every public operation — all handlers at a grid of positions of every file of 4 workspaces (imports, overrides, duplicates, plugin, third-party, dependency cycle, import cycle), analysis and re-analysis, close+reopen, diagnostics collectors, CLI queries — under the scheduler, where any same-thread conflicting re-acquisition of a shard lock is a deadlock state; (ii) every schedule up to the preemption bound of editor ∥ request, scan worker ∥ request and 3-thread mixes for 7 request kinds; verdict = no deadlock state, no horizon overrun, no panic; (b) every import digraph over 3 modules (thorough: 4 modules, ≤6 edges) × {star, explicit, pytest_plugins} edges in memory and through the real scan on tmpfs, every dependency digraph over 3 names (thorough 4, ≤6 edges) with and without outer parents, directory chains of depth up to 256/1000 — each under a 10 s watchdog; states/transitions = scheduler states / lock acquisitions executed");
    rep.assume("DashMap 6.1 lock model as in C09; the per-file analysis lock is routed into the scheduler through hook H3; rayon and tokio threads are not model threads");
}

pub fn replay(v: &Value) {
    if v.get("scenario").is_none() {
        println!("{}", serde_json::to_string_pretty(v).unwrap());
        return;
    }
    let name = v["scenario"]["name"].as_str().unwrap_or("");
    let sc = mixes(true).into_iter().map(|x| x.0).find(|s| s.name == name).expect("scenario");
    set_placement(v["placement"] == "Collide");
    let choices: Vec<usize> = serde_json::from_value(v["choices"].clone()).unwrap_or_default();
    let r = crate::e1::run_schedule(&sc, &choices, 1_000_000);
    for l in vsched::trace_to_strings(&r.outcome) {
        println!("{}", l);
    }
    println!("abort: {:?}\npanics: {:?}", r.outcome.abort, r.outcome.panics);
}
