//! C07 — caching, closing documents and cache eviction are invisible.
//! Explicit-state BFS (stateright) over histories of {analyses, queries, open/close} on an on-disk
//! workspace; every state carries the real (warm) FixtureDatabase; oracle = a cold twin that
//! received only the analyses.

use crate::db::{deep_clone, def_key, hash_lines};
use crate::e5::{write_file, Scratch};
use crate::report::{is_thorough, Report};
use pytest_language_server::FixtureDatabase;
use serde_json::{json, Value};
use stateright::{Checker, Model, Property};
use std::hash::{Hash, Hasher};
use std::path::{Path, PathBuf};
use std::sync::atomic::{AtomicU64, Ordering};
use std::sync::Arc;

pub struct F {
    pub rel: &'static str,
    /// version 0 is the on-disk content
    pub versions: Vec<(&'static str, &'static str)>,
    /// analysed by the initial scan (false: reached later by a scan worker action)
    pub initially_scanned: bool,
}

pub fn files() -> Vec<F> {
    vec![
        F { rel: "conftest.py", initially_scanned: true, versions: vec![
            ("disk: star-imports h1, defines cx", "import pytest\nfrom h1 import *\n\n@pytest.fixture\ndef cx() -> int:\n    return 1\n"),
            ("removes its last definition", "import pytest\nfrom h1 import *\n"),
            ("only the import line changes (h1 -> nothing)", "import pytest\nimport os\n\n@pytest.fixture\ndef cx() -> int:\n    return 1\n"),
        ] },
        F { rel: "h1.py", initially_scanned: true, versions: vec![
            ("disk: star-imports h2, defines h1x", "import pytest\nfrom h2 import *\n\n@pytest.fixture\ndef h1x():\n    return 1\n"),
            ("adds h1y depending on h2x", "import pytest\nfrom h2 import *\n\n@pytest.fixture\ndef h1x():\n    return 1\n\n@pytest.fixture\ndef h1y(h2x):\n    return 2\n"),
        ] },
        F { rel: "h2.py", initially_scanned: true, versions: vec![
            ("disk: star-imports h1, defines h2x", "import pytest\nfrom h1 import *\n\n@pytest.fixture\ndef h2x(h1x):\n    return 1\n"),
        ] },
        F { rel: "sub/conftest.py", initially_scanned: false, versions: vec![
            ("disk: defines sx", "import pytest\n\n@pytest.fixture\ndef sx(cx):\n    return 1\n"),
            ("adds nx", "import pytest\n\n@pytest.fixture\ndef sx(cx):\n    return 1\n\n@pytest.fixture\ndef nx():\n    return 2\n"),
        ] },
        F { rel: "sub/test_t.py", initially_scanned: true, versions: vec![
            ("disk: uses cx sx h1x h2x", "def test_t(cx, sx, h1x, h2x):\n    pass\n"),
        ] },
        // a document with an annotated and an unannotated parameter (what the handlers that read the
        // document's text make of it must not depend on whether that text is still cached)
        F { rel: "sub/test_ann.py", initially_scanned: true, versions: vec![
            ("disk: uses cx annotated, cx unannotated in a second test", "def test_ann(cx: int):\n    pass\n\ndef test_plain(cx):\n    pass\n"),
        ] },
    ]
}

/// Second workspace: two conftest.py files (nested) reach the same module through different star-import
/// routes (a diamond over a chain two modules deep); which of them is asked first must not matter.
pub fn diamond_files() -> Vec<F> {
    vec![
        F { rel: "conftest.py", initially_scanned: true, versions: vec![("disk: star-imports b", "from b import *\n")] },
        F { rel: "one/conftest.py", initially_scanned: true, versions: vec![
            ("disk: star-imports a, then b", "from a import *\nfrom b import *\n"),
            ("star-imports b, then a", "from b import *\nfrom a import *\n"),
        ] },
        F { rel: "a.py", initially_scanned: true, versions: vec![("disk: star-imports c", "from c import *\n")] },
        F { rel: "b.py", initially_scanned: true, versions: vec![
            ("disk: star-imports c", "from c import *\n"),
            ("star-imports c, defines bx", "import pytest\nfrom c import *\n\n@pytest.fixture\ndef bx():\n    return 1\n"),
        ] },
        F { rel: "c.py", initially_scanned: true, versions: vec![("disk: star-imports d", "from d import *\n"), ("imports nothing any more (defines no fixture before or after)", "import os\n")] },
        F { rel: "d.py", initially_scanned: true, versions: vec![
            ("disk: defines deep", "import pytest\n\n@pytest.fixture\ndef deep():\n    return 1\n"),
            ("defines deep and deeper", "import pytest\n\n@pytest.fixture\ndef deep():\n    return 1\n\n@pytest.fixture\ndef deeper():\n    return 2\n"),
        ] },
        F { rel: "one/test_x.py", initially_scanned: true, versions: vec![("disk: uses deep", "def test_x(deep):\n    pass\n")] },
        F { rel: "test_top.py", initially_scanned: true, versions: vec![("disk: uses deep", "def test_top(deep):\n    pass\n")] },
    ]
}

const NQ_DIAMOND: u8 = 6;

/// Third workspace: an import cycle (closed by a star import or by pytest_plugins, per version) with
/// two entry points, one member of the cycle having imports of its own that its partner gets from
/// nowhere else.
pub fn cycle_files() -> Vec<F> {
    vec![
        F { rel: "app_a/conftest.py", initially_scanned: true, versions: vec![("disk: pytest_plugins db", "pytest_plugins = [\"db\"]\n"), ("star-imports db", "from db import *\n")] },
        F { rel: "app_b/conftest.py", initially_scanned: true, versions: vec![("disk: pytest_plugins cache", "pytest_plugins = [\"cache\"]\n"), ("star-imports cache", "from cache import *\n"), ("imports nothing any more", "import os\n")] },
        F { rel: "db.py", initially_scanned: true, versions: vec![
            ("disk: star-imports helpers, pytest_plugins cache, defines db_conn", "import pytest\nfrom helpers import *\n\npytest_plugins = [\"cache\"]\n\n@pytest.fixture\ndef db_conn():\n    return 1\n"),
            ("star-imports helpers and cache, defines db_conn", "import pytest\nfrom helpers import *\nfrom cache import *\n\n@pytest.fixture\ndef db_conn():\n    return 1\n"),
        ] },
        F { rel: "cache.py", initially_scanned: true, versions: vec![
            ("disk: pytest_plugins db, defines cache_client", "import pytest\n\npytest_plugins = [\"db\"]\n\n@pytest.fixture\ndef cache_client():\n    return 1\n"),
            ("star-imports db, defines cache_client", "import pytest\nfrom db import *\n\n@pytest.fixture\ndef cache_client():\n    return 1\n"),
        ] },
        F { rel: "helpers.py", initially_scanned: true, versions: vec![("disk: defines helper_fixture", "import pytest\n\n@pytest.fixture\ndef helper_fixture():\n    return 1\n")] },
        F { rel: "app_a/test_a.py", initially_scanned: true, versions: vec![("disk: uses helper_fixture", "def test_a(helper_fixture, cache_client):\n    pass\n")] },
        F { rel: "app_b/test_b.py", initially_scanned: true, versions: vec![("disk: uses helper_fixture", "def test_b(helper_fixture, db_conn):\n    pass\n")] },
    ]
}

const NQ_CYCLE: u8 = 5;

/// Fourth workspace: a module and a package of the same name side by side (helpers.py and
/// helpers/__init__.py): which one `import helpers` means must not depend on whose text is cached.
pub fn clash_files() -> Vec<F> {
    vec![
        F { rel: "conftest.py", initially_scanned: true, versions: vec![("disk: star-imports helpers", "from helpers import *\n")] },
        F { rel: "helpers.py", initially_scanned: true, versions: vec![
            ("disk: module defines resource and module_only", "import pytest\n\n@pytest.fixture\ndef resource():\n    return 1\n\n@pytest.fixture\ndef module_only():\n    return 2\n"),
            ("module defines resource only", "import pytest\n\n@pytest.fixture\ndef resource():\n    return 1\n"),
        ] },
        F { rel: "helpers/__init__.py", initially_scanned: true, versions: vec![
            ("disk: package defines resource and package_only", "import pytest\n\n@pytest.fixture\ndef resource():\n    return 3\n\n@pytest.fixture\ndef package_only():\n    return 4\n"),
        ] },
        F { rel: "test_app.py", initially_scanned: true, versions: vec![("disk: uses the three names", "def test_app(resource, module_only, package_only):\n    pass\n")] },
    ]
}

const NQ_CLASH: u8 = 3;

fn run_query_clash(db: &FixtureDatabase, root: &Path, q: u8) -> String {
    let p = |r: &str| root.join(r);
    let root_s = root.to_string_lossy().to_string();
    let keys = |v: Vec<pytest_language_server::FixtureDefinition>| v.iter().map(|d| def_key(d, &root_s)).collect::<Vec<_>>();
    match q {
        0 => format!("available(test_app.py) = {:?}", keys(db.get_available_fixtures(&p("test_app.py")))),
        1 => format!("goto(resource) = {:?}, goto(module_only) = {:?}, goto(package_only) = {:?}",
            db.find_fixture_definition(&p("test_app.py"), 0, 13).map(|d| def_key(&d, &root_s)),
            db.find_fixture_definition(&p("test_app.py"), 0, 23).map(|d| def_key(&d, &root_s)),
            db.find_fixture_definition(&p("test_app.py"), 0, 36).map(|d| def_key(&d, &root_s))),
        _ => format!("imported(resource in conftest.py) = {}, imported(package_only in conftest.py) = {}", db.is_fixture_imported_in_file("resource", &p("conftest.py")), db.is_fixture_imported_in_file("package_only", &p("conftest.py"))),
    }
}

fn run_query_cycle(db: &FixtureDatabase, root: &Path, q: u8) -> String {
    let p = |r: &str| root.join(r);
    let root_s = root.to_string_lossy().to_string();
    let keys = |v: Vec<pytest_language_server::FixtureDefinition>| v.iter().map(|d| def_key(d, &root_s)).collect::<Vec<_>>();
    match q {
        0 => format!("available(app_a/test_a.py) = {:?}", keys(db.get_available_fixtures(&p("app_a/test_a.py")))),
        1 => format!("available(app_b/test_b.py) = {:?}", keys(db.get_available_fixtures(&p("app_b/test_b.py")))),
        2 => format!("goto(helper_fixture@app_a) = {:?}, goto(cache_client@app_a) = {:?}", db.find_fixture_definition(&p("app_a/test_a.py"), 0, 11).map(|d| def_key(&d, &root_s)), db.find_fixture_definition(&p("app_a/test_a.py"), 0, 27).map(|d| def_key(&d, &root_s))),
        3 => format!("goto(helper_fixture@app_b) = {:?}, goto(db_conn@app_b) = {:?}", db.find_fixture_definition(&p("app_b/test_b.py"), 0, 11).map(|d| def_key(&d, &root_s)), db.find_fixture_definition(&p("app_b/test_b.py"), 0, 27).map(|d| def_key(&d, &root_s))),
        _ => format!("imported(helper_fixture in db.py) = {}, imported(helper_fixture in cache.py) = {}, imported(cache_client in db.py) = {}", db.is_fixture_imported_in_file("helper_fixture", &p("db.py")), db.is_fixture_imported_in_file("helper_fixture", &p("cache.py")), db.is_fixture_imported_in_file("cache_client", &p("db.py"))),
    }
}

fn run_query_diamond(db: &FixtureDatabase, root: &Path, q: u8) -> String {
    let p = |r: &str| root.join(r);
    let root_s = root.to_string_lossy().to_string();
    let keys = |v: Vec<pytest_language_server::FixtureDefinition>| v.iter().map(|d| def_key(d, &root_s)).collect::<Vec<_>>();
    match q {
        0 => format!("available(one/test_x.py) = {:?}", keys(db.get_available_fixtures(&p("one/test_x.py")))),
        1 => format!("available(test_top.py) = {:?}", keys(db.get_available_fixtures(&p("test_top.py")))),
        2 => format!("goto(deep@one/test_x.py) = {:?}", db.find_fixture_definition(&p("one/test_x.py"), 0, 11).map(|d| def_key(&d, &root_s))),
        3 => format!("goto(deep@test_top.py) = {:?}", db.find_fixture_definition(&p("test_top.py"), 0, 13).map(|d| def_key(&d, &root_s))),
        4 => format!("imported(deep in a.py) = {}, imported(deep in b.py) = {}, imported(deep in c.py) = {}", db.is_fixture_imported_in_file("deep", &p("a.py")), db.is_fixture_imported_in_file("deep", &p("b.py")), db.is_fixture_imported_in_file("deep", &p("c.py"))),
        _ => {
            let mut v: Vec<String> = Vec::new();
            let mut defs: Vec<pytest_language_server::FixtureDefinition> = Vec::new();
            for e in db.definitions.iter() {
                defs.extend(e.value().iter().cloned());
            }
            defs.sort_by_key(|d| def_key(d, &root_s));
            for d in defs {
                let mut r: Vec<String> = db.find_references_for_definition(&d).iter().map(|u| format!("{}:{}:{}", crate::db::rel(&u.file_path, &root_s), u.line, u.start_char)).collect();
                r.sort();
                v.push(format!("{} <- {:?}", def_key(&d, &root_s), r));
            }
            format!("references = {:?}", v)
        }
    }
}

#[derive(Clone, Copy, Debug, PartialEq, Eq, Hash)]
pub enum Act {
    /// didOpen/didChange with version v of file f (analyze_file)
    Change(u8, u8),
    /// the background scan reaches a file that was not analysed yet (no-cleanup path)
    Scan(u8),
    /// didClose of an unmodified document (cleanup_file_cache); eviction of this path is the same
    Close(u8),
    Query(u8),
}

const NQ: u8 = 8;

fn run_query(db: &FixtureDatabase, root: &Path, q: u8) -> String {
    let p = |r: &str| root.join(r);
    let rootS = root.to_string_lossy().to_string();
    let keys = |v: Vec<pytest_language_server::FixtureDefinition>| v.iter().map(|d| def_key(d, &rootS)).collect::<Vec<_>>();
    match q {
        0 => format!("available(sub/test_t.py) = {:?}", keys(db.get_available_fixtures(&p("sub/test_t.py")))),
        1 => format!("available(conftest.py) = {:?}", keys(db.get_available_fixtures(&p("conftest.py")))),
        2 => {
            let mut c: Vec<String> = db.detect_fixture_cycles().iter().map(|c| format!("{} {:?}", def_key(&c.fixture, &rootS), c.cycle_path)).collect();
            c.sort();
            format!("cycles = {:?}", c)
        }
        3 => format!("imported(h2x in h1.py) = {}, imported(h1x in h2.py) = {}, imported(h1y in conftest.py) = {}", db.is_fixture_imported_in_file("h2x", &p("h1.py")), db.is_fixture_imported_in_file("h1x", &p("h2.py")), db.is_fixture_imported_in_file("h1y", &p("conftest.py"))),
        4 => {
            // go-to-definition through the conftest's import branch (usage of h1x, h2x in the test)
            let a = db.find_fixture_definition(&p("sub/test_t.py"), 0, 19).map(|d| def_key(&d, &rootS));
            let b = db.find_fixture_definition(&p("sub/test_t.py"), 0, 24).map(|d| def_key(&d, &rootS));
            format!("goto(h1x) = {:?}, goto(h2x) = {:?}", a, b)
        }
        5 => {
            // references of every definition
            let mut v: Vec<String> = Vec::new();
            let mut defs: Vec<pytest_language_server::FixtureDefinition> = Vec::new();
            for e in db.definitions.iter() {
                defs.extend(e.value().iter().cloned());
            }
            defs.sort_by_key(|d| def_key(d, &rootS));
            for d in defs {
                let mut r: Vec<String> = db.find_references_for_definition(&d).iter().map(|u| format!("{}:{}:{}", crate::db::rel(&u.file_path, &rootS), u.line, u.start_char)).collect();
                r.sort();
                v.push(format!("{} <- {:?}", def_key(&d, &rootS), r));
            }
            format!("references = {:?}", v)
        }
        7 => {
            // handlers that look at the document's text: inlay hints (is the parameter annotated already?)
            // and document symbols (where does the function's last line end?)
            let lsp = crate::lsp::Lsp::new(Arc::new(crate::db::deep_clone(db)), Some(root));
            let hints: Vec<String> = lsp.inlay_hint(&p("sub/test_ann.py"), crate::lsp::whole_doc_range()).ok().flatten().unwrap_or_default().iter().map(|h| format!("{}:{} {:?}", h.position.line, h.position.character, h.label)).collect();
            let syms = |f: &str| -> Vec<String> { lsp.document_symbol(&p(f)).ok().flatten().unwrap_or_default().iter().map(|s| format!("{} {:?}", s.name, s.range)).collect() };
            format!("inlay(sub/test_ann.py) = {:?}, symbols(conftest.py) = {:?}, symbols(sub/conftest.py) = {:?}", hints, syms("conftest.py"), syms("sub/conftest.py"))
        }
        _ => {
            let g = db.find_fixture_definition(&p("sub/test_t.py"), 0, 11).map(|d| def_key(&d, &rootS));
            let s = db.find_fixture_definition(&p("sub/test_t.py"), 0, 15).map(|d| def_key(&d, &rootS));
            format!("goto(cx) = {:?}, goto(sx) = {:?}, unused = {:?}", g, s, db.get_unused_fixtures().iter().map(|(p, n)| format!("{}:{}", crate::db::rel(p, &rootS), n)).collect::<Vec<_>>())
        }
    }
}

#[derive(Clone)]
pub struct St {
    /// per file: current version (None = not analysed yet)
    pub ver: Vec<Option<u8>>,
    pub closed: Vec<bool>,
    /// fingerprint of the cache contents (which entries exist, whether they are current, what they hold)
    pub cache_fp: u64,
    pub depth: u8,
    pub hist: Vec<Act>,
    pub db: Arc<FixtureDatabase>,
}
impl PartialEq for St {
    fn eq(&self, o: &Self) -> bool {
        self.ver == o.ver && self.closed == o.closed && self.cache_fp == o.cache_fp && self.depth == o.depth
    }
}
impl Eq for St {}
impl Hash for St {
    fn hash<H: Hasher>(&self, h: &mut H) {
        self.ver.hash(h);
        self.closed.hash(h);
        self.cache_fp.hash(h);
        self.depth.hash(h);
    }
}
impl std::fmt::Debug for St {
    fn fmt(&self, f: &mut std::fmt::Formatter<'_>) -> std::fmt::Result {
        write!(f, "{:?}/{:?}@{}", self.ver, self.closed, self.depth)
    }
}

pub struct CacheModel {
    pub files: Vec<F>,
    pub root: PathBuf,
    pub max_depth: u8,
    pub rep: &'static Report,
    pub transitions: AtomicU64,
    pub query_comparisons: AtomicU64,
    pub nq: u8,
    pub query: fn(&FixtureDatabase, &Path, u8) -> String,
}

fn cache_fingerprint(db: &FixtureDatabase, root: &str) -> u64 {
    let cur = db.definitions_version.load(Ordering::SeqCst);
    let mut v: Vec<String> = Vec::new();
    for e in db.available_fixtures_cache.iter() {
        let (ver, fx) = e.value();
        v.push(format!("AV {} fresh={} {:?}", crate::db::rel(e.key(), root), *ver == cur, fx.iter().map(|d| def_key(d, root)).collect::<Vec<_>>()));
    }
    for e in db.imported_fixtures_cache.iter() {
        let (h, ver, names) = e.value();
        let mut n: Vec<&String> = names.iter().collect();
        n.sort();
        let content_current = db.file_cache.get(e.key()).map(|c| crate::db::hash_str(&c) ).map(|x| x.to_string()).unwrap_or_default();
        let _ = h;
        v.push(format!("IM {} fresh={} {:?} {}", crate::db::rel(e.key(), root), *ver == cur, n, content_current));
    }
    for e in db.cycle_cache.iter() {
        let (ver, c) = e.value();
        v.push(format!("CY fresh={} {}", *ver == cur, c.len()));
    }
    for e in db.file_cache.iter() {
        v.push(format!("FC {}", crate::db::rel(e.key(), root)));
    }
    for e in db.ast_cache.iter() {
        v.push(format!("AST {}", crate::db::rel(e.key(), root)));
    }
    v.sort();
    hash_lines(&v)
}

impl CacheModel {
    fn path(&self, f: u8) -> PathBuf {
        self.root.join(self.files[f as usize].rel)
    }
    fn initial_db(&self) -> FixtureDatabase {
        let db = FixtureDatabase::new();
        for (i, f) in self.files.iter().enumerate() {
            if f.initially_scanned {
                db.verif_analyze_file_fresh(self.path(i as u8), f.versions[0].1);
            }
        }
        db
    }
    /// the cold twin: same analyses, no queries, no closes
    fn cold(&self, hist: &[Act]) -> FixtureDatabase {
        let db = self.initial_db();
        for a in hist {
            match a {
                Act::Change(f, v) => db.analyze_file(self.path(*f), self.files[*f as usize].versions[*v as usize].1),
                Act::Scan(f) => db.verif_analyze_file_fresh(self.path(*f), self.files[*f as usize].versions[0].1),
                _ => {}
            }
        }
        db
    }
    fn hist_json(&self, hist: &[Act]) -> Value {
        json!(hist
            .iter()
            .map(|a| match a {
                Act::Change(f, v) => format!("didOpen/didChange {} := {}", self.files[*f as usize].rel, self.files[*f as usize].versions[*v as usize].0),
                Act::Scan(f) => format!("scan worker reaches {}", self.files[*f as usize].rel),
                Act::Close(f) => format!("didClose (or eviction of) {}", self.files[*f as usize].rel),
                Act::Query(q) => format!("query #{}", q),
            })
            .collect::<Vec<_>>())
    }
    fn judge(&self, s: &St, last: Act) {
        // every query on a private copy of the warm server vs the cold twin
        for q in 0..self.nq {
            // one query per copy: the oracle's own queries must not warm anything for each other
            let cold = self.cold(&s.hist);
            let probe = deep_clone(&s.db);
            let a = (self.query)(&probe, &self.root, q);
            let b = (self.query)(&cold, &self.root, q);
            self.query_comparisons.fetch_add(1, Ordering::Relaxed);
            if a != b {
                let qn = a.split(' ').next().unwrap_or("").to_string();
                let lastk = match last {
                    Act::Change(f, v) => format!("after change of {} to `{}`", self.files[f as usize].rel, self.files[f as usize].versions[v as usize].0),
                    Act::Scan(f) => format!("after the scan worker analysed {}", self.files[f as usize].rel),
                    Act::Close(_) => "after a close/eviction".to_string(),
                    Act::Query(_) => "after a query".to_string(),
                };
                let fp = format!("warm answer differs from cold twin: {} {}", qn, lastk);
                if !self.rep.count_if_seen(&fp) {
                    self.rep.violation(&fp, &format!("history {}: warm `{}` vs cold `{}`", self.hist_json(&s.hist), a, b), || json!({"history": self.hist_json(&s.hist), "warm": a, "cold": b}));
                }
            }
        }
    }
}

impl Model for CacheModel {
    type State = St;
    type Action = Act;
    fn init_states(&self) -> Vec<St> {
        let db = crate::seed::on_fresh_thread(|| self.initial_db());
        let root = self.root.to_string_lossy().to_string();
        vec![St {
            ver: self.files.iter().map(|f| if f.initially_scanned { Some(0) } else { None }).collect(),
            closed: vec![false; self.files.len()],
            cache_fp: cache_fingerprint(&db, &root),
            depth: 0,
            hist: vec![],
            db: Arc::new(db),
        }]
    }
    fn actions(&self, s: &St, out: &mut Vec<Act>) {
        if s.depth >= self.max_depth {
            return;
        }
        for (fi, f) in self.files.iter().enumerate() {
            match s.ver[fi] {
                None => out.push(Act::Scan(fi as u8)),
                Some(cur) => {
                    for v in 0..f.versions.len() as u8 {
                        // re-sending the current version only when it re-opens a closed document
                        if v != cur || s.closed[fi] || f.versions.len() == 1 {
                            out.push(Act::Change(fi as u8, v));
                        }
                    }
                    if cur == 0 && !s.closed[fi] {
                        out.push(Act::Close(fi as u8));
                    }
                }
            }
        }
        for q in 0..self.nq {
            out.push(Act::Query(q));
        }
    }
    fn next_state(&self, s: &St, a: Act) -> Option<St> {
        let root = self.root.to_string_lossy().to_string();
        let db = crate::seed::on_fresh_thread(|| {
            let db = deep_clone(&s.db);
            match a {
                Act::Change(f, v) => db.analyze_file(self.path(f), self.files[f as usize].versions[v as usize].1),
                Act::Scan(f) => db.verif_analyze_file_fresh(self.path(f), self.files[f as usize].versions[0].1),
                Act::Close(f) => db.cleanup_file_cache(&self.path(f)),
                Act::Query(q) => {
                    let _ = (self.query)(&db, &self.root, q);
                }
            }
            db
        });
        let mut ver = s.ver.clone();
        let mut closed = s.closed.clone();
        match a {
            Act::Change(f, v) => {
                ver[f as usize] = Some(v);
                closed[f as usize] = false;
            }
            Act::Scan(f) => ver[f as usize] = Some(0),
            Act::Close(f) => closed[f as usize] = true,
            Act::Query(_) => {}
        }
        let mut hist = s.hist.clone();
        hist.push(a);
        let ns = St { ver, closed, cache_fp: cache_fingerprint(&db, &root), depth: s.depth + 1, hist, db: Arc::new(db) };
        self.transitions.fetch_add(1, Ordering::Relaxed);
        crate::seed::on_fresh_thread(|| self.judge(&ns, a));
        Some(ns)
    }
    fn properties(&self) -> Vec<Property<Self>> {
        vec![Property::always("explore", |_, _| true)]
    }
}

/// evict(P) ≡ close(P): push a database over MAX_FILE_CACHE_SIZE for real and compare the delta
/// Open documents whose buffer differs from the file on disk, in a workspace large enough for the
/// real eviction to run: the answers inside those documents must be the same after the eviction as
/// before it (whichever entries it picks). Returns (documents, documents whose text was evicted).
fn eviction_of_modified_documents(rep: &'static Report) -> Value {
    let sc = Scratch::new("c07evm");
    let db = FixtureDatabase::new();
    let disk = "import pytest\n\n@pytest.fixture\ndef ev():\n    return 1\n\ndef test_e(ev):\n    pass\n";
    // the buffer: three more lines above the test, so the usage sits on another line than on disk
    let buf = "import pytest\n\n@pytest.fixture\ndef ev():\n    return 1\n\nA = 1\nB = 2\n\ndef test_e(ev):\n    pass\n";
    let m = 300usize;
    let docs: Vec<PathBuf> = (0..m).map(|i| sc.path().join(format!("open{}/test_e.py", i))).collect();
    // every other document's file on disk is a permutation of the buffer's lines: same byte length,
    // other content (so that no file attribute can stand in for comparing the text)
    let disk_perm = "import pytest\n\n@pytest.fixture\ndef ev():\n    return 1\n\ndef test_e(ev):\n    pass\n\nA = 1\nB = 2\n";
    assert_eq!(disk_perm.len(), buf.len());
    for (i, p) in docs.iter().enumerate() {
        write_file(sc.path(), &crate::db::rel(p, &sc.path().to_string_lossy()), if i % 2 == 0 { disk } else { disk_perm });
        db.analyze_file(p.clone(), buf);
    }
    let ask = |db: &FixtureDatabase, p: &PathBuf| db.find_fixture_definition(p, 9, 12).map(|d| d.line);
    let before: Vec<Option<usize>> = docs.iter().map(|p| ask(&db, p)).collect();
    for i in 0..1800 {
        write_file(sc.path(), &format!("d{}/test_e.py", i), disk);
        db.analyze_file(sc.path().join(format!("d{}/test_e.py", i)), disk);
    }
    let evicted = docs.iter().filter(|p| !db.file_cache.contains_key(*p)).count();
    let mut changed = 0usize;
    for (p, b) in docs.iter().zip(&before) {
        let a = ask(&db, p);
        if a != *b {
            changed += 1;
            if !rep.count_if_seen("eviction changes the answers inside an open document whose buffer differs from disk") {
                rep.violation("eviction changes the answers inside an open document whose buffer differs from disk",
                    &format!("{}: go-to-definition on the usage in the buffer gave {:?} before the eviction and {:?} after it ({} of {} such documents lost their cached text)", crate::db::rel(p, &sc.path().to_string_lossy()), b, a, evicted, m),
                    || json!({"disk": disk, "buffer": buf, "documents": m, "evicted": evicted}));
            }
        }
    }
    json!({"modified_open_documents": m, "of_which_same_byte_length_as_on_disk": m / 2, "whose_text_was_evicted": evicted, "whose_answers_changed": changed})
}

fn eviction_conformance(rep: &'static Report) -> Value {
    let sc = Scratch::new("c07ev");
    let db = FixtureDatabase::new();
    let n = 2001usize;
    let text = "import pytest\n\n@pytest.fixture\ndef ev():\n    return 1\n\ndef test_e(ev):\n    pass\n";
    for i in 0..n {
        let p = sc.path().join(format!("d{}/test_e.py", i));
        // files exist on disk with the analysed text (only text that can be read back is evicted)
        write_file(sc.path(), &format!("d{}/test_e.py", i), text);
        db.analyze_file(p.clone(), text);
        if i + 1 < n {
            // warm the per-path caches; nothing is queried after the analysis that crosses the
            // limit, so that evicted entries cannot be refilled before they are inspected
            let _ = db.get_available_fixtures(&p);
            let _ = db.is_fixture_imported_in_file("ev", &p);
        }
    }
    // the 2001st analysis crossed the limit: eviction has run inside analyze_file
    let remaining = db.file_cache.len();
    let evicted: Vec<PathBuf> = (0..n).map(|i| sc.path().join(format!("d{}/test_e.py", i))).filter(|p| !db.file_cache.contains_key(p)).collect();
    let mut ok = true;
    for p in &evicted {
        // exactly the five per-path caches lost the entry; index data untouched
        if db.line_index_cache.contains_key(p) || db.ast_cache.contains_key(p) || db.available_fixtures_cache.contains_key(p) || db.imported_fixtures_cache.contains_key(p) {
            ok = false;
        }
        if !db.usages.contains_key(p) || !db.file_definitions.contains_key(p) {
            ok = false;
        }
    }
    // and close() removes the same five entries
    let kept: Vec<PathBuf> = (0..n).map(|i| sc.path().join(format!("d{}/test_e.py", i))).filter(|p| db.file_cache.contains_key(p)).take(50).collect();
    for p in &kept {
        db.cleanup_file_cache(p);
        if db.file_cache.contains_key(p) || db.line_index_cache.contains_key(p) || db.ast_cache.contains_key(p) || db.available_fixtures_cache.contains_key(p) || db.imported_fixtures_cache.contains_key(p) || !db.usages.contains_key(p) {
            ok = false;
        }
    }
    if evicted.is_empty() || !ok {
        rep.violation("eviction does not behave like closing the evicted paths", &format!("evicted {} paths, per-path delta as close(): {}", evicted.len(), ok), || json!({}));
    }
    json!({"files_cached_before": n, "remaining_after_eviction": remaining, "evicted": evicted.len(), "delta_equals_close": ok})
}

fn explore(rep: &'static Report, fs: Vec<F>, depth: u8, nq: u8, query: fn(&FixtureDatabase, &Path, u8) -> String) -> (Value, Arc<CacheModel>) {
    let sc = Scratch::new("c07");
    for f in &fs {
        write_file(sc.path(), f.rel, f.versions[0].1);
    }
    let model = Arc::new(CacheModel { files: fs, root: sc.path().to_path_buf(), max_depth: depth, rep, transitions: AtomicU64::new(0), query_comparisons: AtomicU64::new(0), nq, query });
    struct W(Arc<CacheModel>);
    impl Model for W {
        type State = St;
        type Action = Act;
        fn init_states(&self) -> Vec<St> {
            self.0.init_states()
        }
        fn actions(&self, s: &St, o: &mut Vec<Act>) {
            self.0.actions(s, o)
        }
        fn next_state(&self, s: &St, a: Act) -> Option<St> {
            self.0.next_state(s, a)
        }
        fn properties(&self) -> Vec<Property<Self>> {
            vec![Property::always("explore", |_, _| true)]
        }
    }
    let threads = std::thread::available_parallelism().map_or(4, |n| n.get());
    let ck = W(model.clone()).checker().threads(threads).spawn_bfs().join();
    let v = json!({"states": ck.unique_state_count() as u64, "generated_states": ck.state_count() as u64, "max_depth": ck.max_depth() as u64,
        "transitions": model.transitions.load(Ordering::Relaxed), "query_comparisons": model.query_comparisons.load(Ordering::Relaxed),
        "alphabet": {"files": model.files.iter().map(|f| json!({"file": f.rel, "versions": f.versions.iter().map(|v| v.0).collect::<Vec<_>>(), "initially_scanned": f.initially_scanned})).collect::<Vec<_>>(), "queries": nq}});
    drop(ck);
    drop(sc);
    (v, model)
}

/// Histories with a SAVE action (the models above keep the disk fixed): a conftest.py that is edited —
/// also into a text that does not parse —, saved, closed and edited again. Every history up to the
/// depth runs in a scratch directory of its own; after every step three queries are compared between
/// the warm database and a cold twin that received only the analyses.
fn saved_documents(rep: &'static Report, depth: usize) -> Value {
    const V: [(&str, &str); 3] = [
        ("star-imports h1, defines cx", "import pytest\nfrom h1 import *\n\n@pytest.fixture\ndef cx():\n    return 1\n"),
        ("does not parse", "import pytest\nfrom h1 import *\n\n@pytest.fixture\ndef cx(:\n"),
        ("valid, imports nothing", "import pytest\n\n@pytest.fixture\ndef cx():\n    return 1\n"),
    ];
    const H1: &str = "import pytest\n\n@pytest.fixture\ndef h1x():\n    return 1\n";
    const TEST: &str = "def test_t(cx, h1x):\n    pass\n";
    #[derive(Clone, Copy, Debug, PartialEq)]
    enum A { Change(usize), Save, Close }
    let alphabet = [A::Change(0), A::Change(1), A::Change(2), A::Save, A::Close];
    let mut hists: Vec<Vec<A>> = vec![vec![]];
    for _ in 0..depth {
        hists = hists.iter().flat_map(|h| alphabet.iter().map(move |a| { let mut x = h.clone(); x.push(*a); x })).collect();
    }
    let compared = AtomicU64::new(0);
    let executed = AtomicU64::new(0);
    crate::report::par_batches(&hists, 16, |_i, h| {
        let sc = Scratch::new("c07sv");
        let root = sc.path().to_path_buf();
        write_file(&root, "conftest.py", V[0].1);
        write_file(&root, "h1.py", H1);
        write_file(&root, "test_t.py", TEST);
        let (warm, cold) = (FixtureDatabase::new(), FixtureDatabase::new());
        for db in [&warm, &cold] {
            db.analyze_file(root.join("h1.py"), H1);
            db.analyze_file(root.join("conftest.py"), V[0].1);
            db.analyze_file(root.join("test_t.py"), TEST);
        }
        let (mut buffer, mut disk, mut open) = (0usize, 0usize, true);
        let mut said: Vec<String> = Vec::new();
        for a in h {
            match a {
                A::Change(v) => {
                    warm.analyze_file(root.join("conftest.py"), V[*v].1);
                    cold.analyze_file(root.join("conftest.py"), V[*v].1);
                    buffer = *v;
                    open = true;
                    said.push(format!("didOpen/didChange conftest.py := {}", V[*v].0));
                }
                A::Save => {
                    if !open { return; }
                    write_file(&root, "conftest.py", V[buffer].1);
                    disk = buffer;
                    said.push("save conftest.py".into());
                }
                A::Close => {
                    // only an unmodified document (buffer == file) is closed without an analysis
                    if !open || buffer != disk { return; }
                    warm.cleanup_file_cache(&root.join("conftest.py"));
                    open = false;
                    said.push("didClose (or eviction of) conftest.py".into());
                }
            }
            executed.fetch_add(1, Ordering::Relaxed);
            let rs = root.to_string_lossy().to_string();
            let ask = |db: &FixtureDatabase| -> Vec<String> {
                let c = deep_clone(db);
                let t = root.join("test_t.py");
                vec![
                    format!("available(test_t.py) = {:?}", c.get_available_fixtures(&t).iter().map(|d| def_key(d, &rs)).collect::<Vec<_>>()),
                    format!("goto(cx) = {:?}, goto(h1x) = {:?}", deep_clone(db).find_fixture_definition(&t, 0, 11).map(|d| def_key(&d, &rs)), deep_clone(db).find_fixture_definition(&t, 0, 15).map(|d| def_key(&d, &rs))),
                    format!("imported(h1x in conftest.py) = {}", deep_clone(db).is_fixture_imported_in_file("h1x", &root.join("conftest.py"))),
                ]
            };
            let (w, c) = (ask(&warm), ask(&cold));
            compared.fetch_add(w.len() as u64, Ordering::Relaxed);
            for (x, y) in w.iter().zip(&c) {
                if x != y {
                    let fp = format!("saved documents: warm answer differs from cold twin: {} after {}", x.split(" = ").next().unwrap_or(""), said.last().map(|s| s.split(" := ").next().unwrap_or("").to_string()).unwrap_or_default());
                    if !rep.count_if_seen(&fp) {
                        rep.violation(&fp, &format!("history {:?}: warm `{}` vs cold `{}`", said, x, y), || json!({"history": said, "versions": V.iter().map(|v| json!({"name": v.0, "text": v.1})).collect::<Vec<_>>()}));
                    }
                }
            }
        }
    });
    json!({"histories": hists.len(), "depth": depth, "steps_executed": executed.load(Ordering::Relaxed), "query_comparisons": compared.load(Ordering::Relaxed),
        "alphabet": ["didChange conftest.py := valid with star import", "didChange := text that does not parse", "didChange := valid without imports", "save (buffer written to disk)", "didClose of the unmodified document"]})
}

/// Queries that run WHILE an analysis is changing the index (thread interleavings, E1): whatever a query
/// caches then must not be served once the analysis has finished. Every schedule with ≤ P preemptions of
/// [didChange(conftest.py := version without the fixtures)] ∥ [cycle detection ; available fixtures ;
/// imported-fixture lookup]; at quiescence the warm answers must equal those of a cold twin.
fn queries_during_an_analysis(rep: &'static Report, bound: usize) -> Value {
    use crate::e1::{analyze, describe, Op, Scenario};
    const CYC: &str = "import pytest\nfrom qh import *\n\n@pytest.fixture\ndef qa(qb):\n    return 1\n\n@pytest.fixture\ndef qb(qa):\n    return 2\n";
    const PLAIN: &str = "import pytest\n";
    const HELPER: &str = "import pytest\n\n@pytest.fixture\ndef qh():\n    return 1\n";
    const TEST: &str = "def test_q(qa, qh):\n    pass\n";
    let q = |desc: &str, g: Arc<dyn Fn(&Arc<FixtureDatabase>) + Send + Sync>| Op { desc: desc.to_string(), f: g };
    let test = crate::e1::p("test_q.py");
    let conf = crate::e1::p("conftest.py");
    let (t1, c1) = (test.clone(), conf.clone());
    let sc = Scenario {
        name: "didChange(conftest.py := neither fixtures nor imports) ∥ [cycle detection ; available fixtures of the test ; imported-fixture lookup]".into(),
        pre: vec![analyze("qh.py", HELPER), analyze("conftest.py", CYC), analyze("test_q.py", TEST)],
        threads: vec![
            vec![analyze("conftest.py", PLAIN)],
            vec![
                q("detect_fixture_cycles()", Arc::new(|db| { let _ = db.detect_fixture_cycles(); })),
                q("get_available_fixtures(test_q.py)", Arc::new(move |db| { let _ = db.get_available_fixtures(&t1); })),
                q("is_fixture_imported_in_file(qh, conftest.py)", Arc::new(move |db| { let _ = db.is_fixture_imported_in_file("qh", &c1); })),
            ],
        ],
    };
    let answers = move |db: &FixtureDatabase| -> Vec<String> {
        let mut c: Vec<String> = db.detect_fixture_cycles().iter().map(|c| format!("{:?}", c.cycle_path)).collect();
        c.sort();
        let mut a: Vec<String> = db.get_available_fixtures(&test).iter().map(|d| d.name.clone()).collect();
        a.sort();
        vec![format!("cycles = {:?}", c), format!("available(test_q.py) = {:?}", a), format!("imported(qh in conftest.py) = {}", db.is_fixture_imported_in_file("qh", &conf))]
    };
    let cold = {
        let db = FixtureDatabase::new();
        db.analyze_file(crate::e1::p("qh.py"), HELPER);
        db.analyze_file(crate::e1::p("conftest.py"), PLAIN);
        db.analyze_file(crate::e1::p("test_q.py"), TEST);
        answers(&db)
    };
    let mut out = Vec::new();
    let (mut schedules, mut points) = (0u64, 0u64);
    for (collide, pname) in [(true, "Collide"), (false, "Split")] {
        crate::checks::c09::set_placement(collide);
        let wrong = std::sync::Mutex::new(0u64);
        let stats = crate::checks::c09::explore_scenario(rep, &sc, pname, bound, 3_000_000, &|r, choices| {
            let case = || json!({"scenario": describe(&sc), "placement": pname, "choices": choices, "trace": vsched::trace_to_strings(&r.outcome)});
            if let Some(a) = &r.outcome.abort {
                if !matches!(a, vsched::Abort::Divergence(_) | vsched::Abort::Unmodelled(_)) {
                    rep.violation("deadlock or horizon overrun during analysis ∥ queries", &format!("{:?}", a), case);
                }
                return;
            }
            let Some(db) = &r.db else { return };
            let warm = answers(db);
            for (w, c) in warm.iter().zip(&cold) {
                if w != c {
                    *wrong.lock().unwrap() += 1;
                    let fp = format!("an answer cached by a query that ran during an analysis is served after it: {}", w.split(" = ").next().unwrap_or(""));
                    if !rep.count_if_seen(&fp) {
                        rep.violation(&fp, &format!("[{}] warm `{}` vs cold `{}`", pname, w, c), case);
                    }
                }
            }
        });
        schedules += stats.schedules;
        points += stats.points;
        let w = *wrong.lock().unwrap();
        println!("  analysis ∥ queries [{}] P≤{}: {} schedules, {} end with a stale answer", pname, bound, stats.schedules, w);
        out.push(json!({"placement": pname, "preemption_bound_completed": bound, "schedules": stats.schedules, "scheduling_points": stats.points, "schedules_ending_with_a_stale_answer": w}));
    }
    json!({"scenario": sc.name, "schedules": schedules, "scheduling_points": points, "per_placement": out})
}

pub fn run(rep: &'static Report) {
    let thorough = is_thorough();
    let depth: u8 = if thorough { 4 } else { 3 };
    let during = queries_during_an_analysis(rep, if thorough { 3 } else { 2 });
    rep.set("queries_during_an_analysis", during);
    let saved = saved_documents(rep, if thorough { 6 } else { 5 });
    rep.set("histories_with_save", saved);
    let (v1, model) = explore(rep, files(), depth, NQ, run_query);
    let (v2, _m2) = explore(rep, diamond_files(), depth, NQ_DIAMOND, run_query_diamond);
    let (v3, _m3) = explore(rep, cycle_files(), depth, NQ_CYCLE, run_query_cycle);
    let (v4, _m4) = explore(rep, clash_files(), depth, NQ_CLASH, run_query_clash);
    // on a helper thread with a deadline: an analysis that never returns once the cache limit is
    // crossed must end this check with a verdict, not stall it (termination itself is C12's subject)
    let (tx, rx) = std::sync::mpsc::channel();
    std::thread::spawn(move || {
        let a = eviction_conformance(rep);
        let b = eviction_of_modified_documents(rep);
        let _ = tx.send(json!({"eviction_equals_close": a, "modified_documents_under_eviction": b}));
    });
    let ev = match rx.recv_timeout(std::time::Duration::from_secs(180)) {
        Ok(v) => v,
        Err(_) => {
            rep.violation("crossing the file-cache limit never completes", "the analysis that pushes the file cache over MAX_FILE_CACHE_SIZE did not return within 180 s", || json!({"eviction_conformance": "timeout"}));
            json!({"timeout": true})
        }
    };
    let sum = |k: &str| v1[k].as_u64().unwrap_or(0) + v2[k].as_u64().unwrap_or(0) + v3[k].as_u64().unwrap_or(0) + v4[k].as_u64().unwrap_or(0);
    rep.set("states", sum("states"));
    rep.set("generated_states", sum("generated_states"));
    rep.set("max_depth", v1["max_depth"].clone());
    let t = sum("transitions");
    rep.set("transitions", t);
    rep.set("evaluations", sum("query_comparisons"));
    rep.set("distinct_nontrivial", sum("states"));
    rep.set("traces_validated_against_impl", t);
    rep.set("eviction_conformance", ev);
    rep.set("models", json!([v1, v2, v3, v4]));
    rep.set("exhaustive", true);
    rep.sample(json!({"history": model.hist_json(&[Act::Query(0), Act::Change(0, 1), Act::Query(0)])}));
    rep.set("rule", "explicit-state BFS (stateright) over all histories up to the stated depth of: didOpen/didChange with each version of each file (incl. an edit that removes a conftest's last definition, one that only changes its import line, one adding a fixture, a helper edit; helper modules import each other), the scan worker reaching a not-yet-analysed conftest through the no-cleanup path, didClose of an unmodified document (= eviction of that path, bound by the eviction conformance test), and 8 query kinds (inlay hints and document symbols of documents whose text may no longer be cached, available fixtures of 2 files, cycles, imported-fixture lookups across the mutually importing modules, go-to-definition through the import branch, references of every definition, resolution + unused list); state = file versions + closed flags + fingerprint of every cache's contents and freshness + depth, carrying the real warm FixtureDatabase; after EVERY transition all 7 queries are evaluated on a copy of the warm database and on a cold twin that received only the analyses, and must agree. A second model does the same over a workspace in which two nested conftest.py files reach one module through different star-import routes (diamond over a chain two modules deep; 6 query kinds asked from below either conftest), and a third one over an import cycle with two entry points whose closing edges are star imports or pytest_plugins declarations depending on the file version, and a fourth one in which a module and a package of the same name exist side by side");
    rep.assume("closing is only offered for documents whose buffer equals the on-disk content (the statement's 'unmodified document'); eviction of a set of paths has the effect of closing each of them (checked once per run by really crossing MAX_FILE_CACHE_SIZE)");
}

pub fn replay(v: &Value) {
    println!("{}", serde_json::to_string_pretty(v).unwrap());
}
