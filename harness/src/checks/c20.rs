//! C20 — CLI reports agree with the language server and are reproducible (E5).
//! (First part: the per-fixture usage counts of `fixtures list`, shared with C04.)

use crate::db::rel;
use crate::e5::{count_of, materialize, parse_list, run_cli, Scratch};
use crate::layouts::Layout;
use crate::report::Report;
use pytest_language_server::FixtureDatabase;
use serde_json::{json, Value};
use std::collections::BTreeMap;

/// Workspaces for the CLI checks: project-only layouts (no plugin / site-packages distractor —
/// those need a synthetic venv, see `run`), spread evenly over the enumeration.
pub fn cli_layouts(n: usize) -> Vec<Layout> {
    let all: Vec<Layout> = Layout::enumerate(2, false)
        .into_iter()
        .filter(|l| !l.distractors[3] && !l.distractors[4])
        .collect();
    let step = (all.len() / n.max(1)).max(1);
    all.into_iter().step_by(step).take(n).collect()
}

/// expected (file, name) -> Σ |references(D)| over the definitions D of that name in that file
pub fn expected_counts(db: &FixtureDatabase, root: &str) -> BTreeMap<(String, String), usize> {
    let mut m: BTreeMap<(String, String), usize> = BTreeMap::new();
    for e in db.definitions.iter() {
        for d in e.value() {
            let n = db.find_references_for_definition(d).len();
            *m.entry((rel(&d.file_path, root), d.name.clone())).or_insert(0) += n;
        }
    }
    m
}

pub fn cli_counts_subset(rep: &Report, n: usize) -> Value {
    let lays = cli_layouts(n);
    let compared = std::sync::atomic::AtomicU64::new(0);
    crate::report::par_batches(&lays, 4, |_i, lay| {
        let ws = lay.to_ws();
        let r = ws.render();
        let sc = Scratch::new("c04cli");
        materialize(&ws, &r, sc.path());
        let root = sc.path().to_string_lossy().to_string();
        let db = FixtureDatabase::new();
        db.scan_workspace(sc.path());
        let want = expected_counts(&db, &root);
        let out = run_cli(&["fixtures", "list", &root], &[]);
        let got = parse_list(&out.stdout);
        for ((f, name), n) in &want {
            compared.fetch_add(1, std::sync::atomic::Ordering::Relaxed);
            let g = got.get(&(f.clone(), name.clone())).map(|i| count_of(i));
            if g != Some(*n) {
                rep.violation(
                    "cli-list-count-differs-from-references",
                    &format!("`fixtures list` shows {:?} for {} in {}, references has {}", got.get(&(f.clone(), name.clone())), name, f, n),
                    || json!({"layout": lay, "stdout": out.stdout, "expected": n}),
                );
            }
        }
    });
    json!({"workspaces": lays.len(), "fixture_counts_compared": compared.load(std::sync::atomic::Ordering::Relaxed)})
}
