//! C20 — CLI reports agree with the language server and are reproducible (E5: the real binary).

use crate::db::rel;
use crate::e5::{count_of, materialize, materialize_with_venv, parse_list, run_cli, seed_shim, Scratch};
use crate::layouts::Layout;
use crate::report::{is_thorough, Report};
use crate::ws::{FileSpec, Item, Ws};
use pytest_language_server::FixtureDatabase;
use serde_json::{json, Value};
use std::collections::BTreeMap;
use std::sync::atomic::{AtomicU64, Ordering};

/// Workspaces for the CLI checks, spread evenly over the layout enumeration.
pub fn cli_layouts(n: usize, with_venv: bool) -> Vec<Layout> {
    let all: Vec<Layout> = Layout::enumerate(2, false)
        .into_iter()
        .filter(|l| with_venv || (!l.distractors[3] && !l.distractors[4]))
        .collect();
    let step = (all.len() / n.max(1)).max(1);
    all.into_iter().step_by(step).take(n).collect()
}

/// expected (file, name) -> Σ |references(D)| over the definitions D of that name in that file
pub fn expected_counts(db: &FixtureDatabase, root: &str) -> BTreeMap<(String, String), usize> {
    let mut m: BTreeMap<(String, String), usize> = BTreeMap::new();
    for e in db.definitions.iter() {
        for d in e.value() {
            let n = db.find_references_for_definition(d).len();
            *m.entry((rel(&d.file_path, root), d.name.clone())).or_insert(0) += n;
        }
    }
    m
}

pub fn cli_counts_subset(rep: &Report, n: usize) -> Value {
    let mut lays = cli_layouts(n, false);
    // plus every project-only layout in which the name has exactly one definition (requests that cannot
    // see it must not be counted for it)
    for l in Layout::enumerate(2, false) {
        if l.distractors[3] || l.distractors[4] {
            continue;
        }
        let ws = l.to_ws();
        let ndefs: usize = ws.files.iter().map(|f| f.items.iter().filter(|i| matches!(i, Item::Fixture { name, .. } if name == "fx")).count()).sum();
        if ndefs == 1 {
            lays.push(l);
        }
    }
    let compared = AtomicU64::new(0);
    crate::report::par_batches(&lays, 4, |_i, lay| {
        let ws = lay.to_ws();
        let r = ws.render();
        let sc = Scratch::new("c04cli");
        materialize(&ws, &r, sc.path());
        let root = sc.path().to_string_lossy().to_string();
        let db = FixtureDatabase::new();
        db.scan_workspace(sc.path());
        let want = expected_counts(&db, &root);
        let out = run_cli(&["fixtures", "list", &root], &[]);
        let got = parse_list(&out.stdout);
        for ((f, name), n) in &want {
            compared.fetch_add(1, Ordering::Relaxed);
            let g = got.get(&(f.clone(), name.clone())).map(|i| count_of(i));
            if g != Some(*n) {
                rep.violation(
                    "cli-list-count-differs-from-references",
                    &format!("`fixtures list` shows {:?} for {} in {}, references has {}", got.get(&(f.clone(), name.clone())), name, f, n),
                    || json!({"layout": lay, "stdout": out.stdout, "expected": n}),
                );
            }
        }
    });
    json!({"workspaces": lays.len(), "fixture_counts_compared": compared.load(Ordering::Relaxed)})
}

fn extra_workspaces() -> Vec<Ws> {
    use crate::ws::{FileSpec, Item};
    let mut auto = Item::fixture("auto_fx", &[]);
    if let Item::Fixture { autouse, .. } = &mut auto {
        *autouse = true;
    }
    vec![
        // autouse + unused + override chain where the override is used only inside its own file
        Ws { files: vec![
            FileSpec::new("conftest.py", vec![Item::fixture("db", &[]), auto.clone(), Item::fixture("never_used", &[])]),
            FileSpec::new("sub/conftest.py", vec![Item::fixture("db", &["db"]), Item::fixture("session", &["db"])]),
            FileSpec::new("sub/test_orders.py", vec![Item::test("orders", &["session"])]),
        ] },
        // usefixtures / pytestmark / indirect usages count as usages
        Ws { files: vec![
            FileSpec::new("conftest.py", vec![Item::fixture("a", &[]), Item::fixture("b", &[]), Item::fixture("c", &[]), Item::fixture("d", &[])]),
            FileSpec::new("test_m.py", vec![Item::Pytestmark { names: vec!["a".into()] }, Item::Test { name: "u".into(), params: vec![], usefixtures: vec!["b".into()], indirect: vec![], indirect_above: false }, Item::Test { name: "i".into(), params: vec!["c".into()], usefixtures: vec![], indirect: vec!["c".into()], indirect_above: false }]),
        ] },
        // a name defined twice in one file (the first definition is shadowed)
        Ws { files: vec![
            FileSpec::new("test_dup.py", vec![Item::fixture("fx", &[]), Item::test("t", &["fx"]), Item::fixture("fx", &[])]),
        ] },
        // imported fixtures
        Ws { files: vec![
            FileSpec::new("conftest.py", vec![Item::StarImport { module: "helpers".into() }]),
            FileSpec::new("helpers.py", vec![Item::fixture("hx", &[]), Item::fixture("hy", &[])]),
            FileSpec::new("test_h.py", vec![Item::test("t", &["hx"])]),
        ] },
    ]
}

fn unused_from_text(out: &str) -> Vec<(String, String)> {
    // "  • name in path"
    let mut v = Vec::new();
    for l in out.lines() {
        let t = l.trim();
        if let Some(rest) = t.strip_prefix("• ") {
            if let Some(i) = rest.rfind(" in ") {
                v.push((rest[i + 4..].to_string(), rest[..i].to_string()));
            }
        }
    }
    v.sort();
    v
}

pub fn run(rep: &'static Report) {
    let thorough = is_thorough();
    let mut wss: Vec<(Ws, Value)> = extra_workspaces().into_iter().map(|w| (w, json!("hand-written"))).collect();
    // configured exclude patterns: the server does not index the excluded files, so their usages are
    // no references and their fixtures no project fixtures; the CLI must report the same workspace
    for (tag, toml) in [("exclude legacy/**", "[tool.pytest-language-server]\nexclude = [\"legacy/**\"]\n"), ("exclude **/test_old.py", "[tool.pytest-language-server]\nexclude = [\"**/test_old.py\"]\n"), ("nothing excluded", "[tool.pytest-language-server]\nexclude = []\n")] {
        let ws = Ws { files: vec![
            FileSpec::new("conftest.py", vec![Item::fixture("fx", &[]), Item::fixture("gx", &[])]),
            FileSpec::new("tests/test_a.py", vec![Item::test("a", &["fx"])]),
            FileSpec::new("legacy/conftest.py", vec![Item::fixture("lx", &[])]),
            FileSpec::new("legacy/test_old.py", vec![Item::test("old", &["gx", "lx"])]),
        ] };
        wss.push((ws, json!({"configured": tag, "pyproject": toml})));
    }
    for l in cli_layouts(if thorough { 1500 } else { 120 }, true) {
        let d = json!(l);
        wss.push((l.to_ws(), d));
    }
    // every layout in which the name has exactly ONE definition in the whole workspace (wherever it
    // lives: visible, in a sibling directory, in another test module, in a module nobody imports):
    // requests that cannot see it must not count as usages of it
    for l in Layout::enumerate(2, false) {
        let ws = l.to_ws();
        let ndefs: usize = ws.files.iter().map(|f| f.items.iter().filter(|i| matches!(i, Item::Fixture { name, .. } if name == "fx")).count()).sum();
        if ndefs == 1 && !l.distractors[3] && !l.distractors[4] {
            let d = json!({"single_definition": l});
            wss.push((ws, d));
        }
    }
    // the CLI run on a sub-directory whose conftest imports a fixture module that lives above it
    for unused_inside in [false, true] {
        let mut files = vec![
            FileSpec::new("helpers/fixtures.py", vec![Item::fixture("hx_used", &[]), Item::fixture("hx_unused", &[])]),
            FileSpec::new("tests/conftest.py", vec![Item::StarImport { module: "helpers.fixtures".into() }, Item::fixture("cx", &[])]),
            FileSpec::new("tests/test_a.py", vec![Item::test("a", &["hx_used", "cx"])]),
        ];
        if unused_inside {
            files.push(FileSpec::new("tests/unit/conftest.py", vec![Item::fixture("ux_unused", &[])]));
        }
        wss.push((Ws { files }, json!({"cli_subdir": "tests", "unused_inside": unused_inside})));
    }
    // fixtures two directory levels below the root, the level in between holding nothing of its own
    // (its only child mixes used and unused fixtures): the filtered listings must keep the subtree
    for outer in crate::layouts::CONF_ALL {
        for inner in crate::layouts::CONF_ALL {
            for own in [0usize, 1] {
                let l = Layout { levels: vec![outer, crate::layouts::Conf::Absent, inner], own_defs: own, distractors: [false; 5], rich: false };
                let d = json!({"nested": l});
                wss.push((l.to_ws(), d));
            }
        }
    }
    for ch in crate::checks::c02::Chain::enumerate(2, 3).into_iter().step_by(if thorough { 1 } else { 9 }) {
        let d = json!(ch);
        wss.push((ch.to_ws(), d));
    }
    let runs = AtomicU64::new(0);
    let compared = AtomicU64::new(0);
    let nontrivial = AtomicU64::new(0);
    let threads_set: Vec<&str> = vec!["1", "4", "16"];
    let seeds: Vec<&str> = if thorough { vec!["0", "1", "2", "3"] } else { vec!["0", "1"] };
    crate::report::par_batches(&wss, 2, |i, (ws, desc)| {
        let r = ws.render();
        let sc = Scratch::new("c20");
        materialize_with_venv(ws, &r, sc.path());
        if let Some(t) = desc["pyproject"].as_str() {
            crate::e5::write_file(sc.path(), "pyproject.toml", t);
        }
        // the directory handed to the CLI (and to the reference scan): the tree's root, or a
        // sub-directory of it whose conftest pulls in a module that lives above it
        let scan_dir = match desc["cli_subdir"].as_str() {
            Some(sub) => sc.path().join(sub),
            None => sc.path().to_path_buf(),
        };
        let root = scan_dir.to_string_lossy().to_string();
        // reference: the library scanning the same tree in-process the way the language server does
        // at initialize (project configuration loaded from the root, its exclude patterns applied)
        let db = FixtureDatabase::new();
        let cfg = pytest_language_server::config::Config::load(&scan_dir);
        db.scan_workspace_with_excludes(&scan_dir, &cfg.exclude);
        let mut want_unused: Vec<(String, String)> = Vec::new();
        let mut shadowed_dup = false;
        for e in db.definitions.iter() {
            for d in e.value() {
                if d.is_third_party || d.autouse {
                    continue;
                }
                if db.find_references_for_definition(d).is_empty() {
                    want_unused.push((rel(&d.file_path, &root), d.name.clone()));
                    if e.value().iter().filter(|x| x.file_path == d.file_path).count() > 1 {
                        shadowed_dup = true;
                    }
                }
            }
        }
        want_unused.sort();
        if !want_unused.is_empty() {
            nontrivial.fetch_add(1, Ordering::Relaxed);
        }
        let counts = expected_counts(&db, &root);
        let case = || json!({"workspace": desc, "files": ws.files.iter().map(|f| f.rel.clone()).collect::<Vec<_>>(), "texts": r.texts});
        let base_env = [("RAYON_NUM_THREADS", "4")];
        // --- fixtures unused (text / json / exit status)
        let ut = run_cli(&["fixtures", "unused", &root], &base_env);
        let uj = run_cli(&["fixtures", "unused", &root, "--format", "json"], &base_env);
        runs.fetch_add(2, Ordering::Relaxed);
        let got_text = unused_from_text(&ut.stdout);
        let ctx = format!("same_name_twice_in_file={}", shadowed_dup);
        compared.fetch_add(1, Ordering::Relaxed);
        if got_text != want_unused {
            rep.violation(&format!("`fixtures unused` list differs from unreferenced project fixtures [{}]", ctx), &format!("CLI {:?} vs server {:?}", got_text, want_unused), case);
        }
        let want_code = if want_unused.is_empty() { 0 } else { 1 };
        // the exit status must follow the printed list
        let printed_empty = got_text.is_empty();
        if ut.code != Some(if printed_empty { 0 } else { 1 }) || uj.code != ut.code {
            rep.violation("`fixtures unused` exit status does not follow its list", &format!("text exit {:?}, json exit {:?}, listed {}", ut.code, uj.code, got_text.len()), case);
        }
        if got_text == want_unused && ut.code != Some(want_code) {
            rep.violation("`fixtures unused` exit status wrong", &format!("exit {:?}, expected {}", ut.code, want_code), case);
        }
        match serde_json::from_str::<Value>(&uj.stdout) {
            Ok(Value::Array(a)) => {
                let mut j: Vec<(String, String)> = a.iter().map(|e| (e["file"].as_str().unwrap_or("").to_string(), e["fixture"].as_str().unwrap_or("").to_string())).collect();
                j.sort();
                if j != got_text {
                    rep.violation("`fixtures unused` JSON entries differ from the text entries", &format!("json {:?} vs text {:?}", j, got_text), case);
                }
            }
            _ => {
                rep.violation("`fixtures unused --format json` is not a JSON array", &uj.stdout, case);
            }
        }
        // --- fixtures list (counts, filters)
        let lp = run_cli(&["fixtures", "list", &root], &base_env);
        let ls = run_cli(&["fixtures", "list", &root, "--skip-unused"], &base_env);
        let lo = run_cli(&["fixtures", "list", &root, "--only-unused"], &base_env);
        runs.fetch_add(3, Ordering::Relaxed);
        let (p, s, o) = (parse_list(&lp.stdout), parse_list(&ls.stdout), parse_list(&lo.stdout));
        for ((f, name), n) in &counts {
            // third-party site-packages files are displayed under the venv path as well
            // (`fixtures list <dir>` prints the tree below <dir>: a module the scan followed an
            // import to above that directory is not part of it — nothing to compare)
            if f.starts_with('/') {
                continue;
            }
            compared.fetch_add(1, Ordering::Relaxed);
            let g = p.get(&(f.clone(), name.clone())).map(|i| count_of(i));
            if g != Some(*n) {
                rep.violation(&format!("`fixtures list` count differs from references [{}]", ctx), &format!("{} in {}: CLI {:?}, references {}", name, f, p.get(&(f.clone(), name.clone())), n), case);
            }
        }
        let pk: std::collections::BTreeSet<_> = p.keys().cloned().collect();
        let sk: std::collections::BTreeSet<_> = s.keys().cloned().collect();
        let ok: std::collections::BTreeSet<_> = o.keys().cloned().collect();
        if !sk.is_disjoint(&ok) || sk.union(&ok).cloned().collect::<std::collections::BTreeSet<_>>() != pk {
            rep.violation("`fixtures list` filters do not partition the fixtures", &format!("plain {:?}, --skip-unused {:?}, --only-unused {:?}", pk, sk, ok), case);
        }
        // --- reproducibility: worker counts × hash seeds × repetitions, byte-identical
        let shim = seed_shim();
        let cmds: Vec<(Vec<&str>, &str)> = vec![
            (vec!["fixtures", "unused", &root], &ut.stdout),
            (vec!["fixtures", "unused", &root, "--format", "json"], &uj.stdout),
            (vec!["fixtures", "list", &root], &lp.stdout),
            (vec!["fixtures", "list", &root, "--skip-unused"], &ls.stdout),
            (vec!["fixtures", "list", &root, "--only-unused"], &lo.stdout),
        ];
        for (args, base) in &cmds {
            for t in &threads_set {
                for sd in &seeds {
                    for _rep in 0..(if thorough { 2 } else { 1 }) {
                        let o = run_cli(args, &[("RAYON_NUM_THREADS", t), ("LD_PRELOAD", &shim), ("VSEED", sd)]);
                        runs.fetch_add(1, Ordering::Relaxed);
                        if &o.stdout != *base {
                            rep.violation("CLI output differs between runs (worker count / hash seed / repetition)", &format!("{:?} with RAYON_NUM_THREADS={} VSEED={}", &args[..2], t, sd), case);
                        }
                    }
                }
            }
        }
        if i % 97 == 1 {
            rep.sample(json!({"files": ws.files.iter().map(|f| f.rel.clone()).collect::<Vec<_>>(), "fixtures_list_output": lp.stdout, "unused_json": uj.stdout}));
        }
    });
    rep.set("evaluations", runs.load(Ordering::Relaxed));
    rep.set("cli_process_runs", runs.load(Ordering::Relaxed));
    rep.set("comparisons_with_server_answers", compared.load(Ordering::Relaxed));
    rep.set("states", wss.len() as u64);
    rep.set("transitions", runs.load(Ordering::Relaxed));
    rep.set("distinct_nontrivial", nontrivial.load(Ordering::Relaxed));
    rep.set("traces_validated_against_impl", runs.load(Ordering::Relaxed));
    rep.set("exhaustive", true);
    rep.set("sweeps", json!({"RAYON_NUM_THREADS": threads_set, "hash_seeds_via_LD_PRELOAD": seeds}));
    rep.set("rule", "workspaces = 4 hand-written (autouse, unused, override used only in its own file, marks, same name twice in a file, imported fixtures) + an evenly spaced subset of the C01 layout enumeration (all provider kinds, plugin via an in-workspace editable install, third-party via a pytest11 entry point in a synthetic .venv) + C02 chains, materialised on tmpfs; the REAL binary runs `fixtures unused` (text, json) and `fixtures list` (plain, --skip-unused, --only-unused); oracle = the library scanning the same tree in-process: unused list == project, non-autouse definitions with empty references; exit status follows the list; JSON == text entries; every printed count == |references|; filters partition; and every command is re-run under worker counts {1,4,16} × hash seeds (LD_PRELOAD shim) and must be byte-identical; non-trivial = workspaces with at least one unused fixture");
    rep.assume("worker counts and hash seeds are labelled sweeps; the in-process reference uses the same scan code as the binary, the comparison is between the CLI's own counting (compute_definition_usage_counts) and find_references_for_definition");
}
