//! C10 — editor buffers win over the background scan.
//! Every schedule (≤ P preemptions) of {scan worker analysing F from disk} ∥ {didOpen / didChange
//! of F with buffer text}; oracle: the single-analysis state of the editor's last content.

use crate::checks::c09::{explore_scenario, set_placement};
use crate::e1::{analyze, analyze_fresh, describe, snap, Op, Scenario};
use crate::report::{is_thorough, Report};
use pytest_language_server::FixtureDatabase;
use serde_json::{json, Value};
use std::collections::BTreeMap;
use std::sync::{Arc, Mutex};

const T_DISK: &str = "import pytest\n\n@pytest.fixture\ndef lx():\n    return 1\n\ndef test_f(lx, fx):\n    pass\n";
const T_BUF: &str = "import pytest\n\n\n@pytest.fixture\ndef lx():\n    return 1\n\n@pytest.fixture\ndef mx(lx):\n    return 2\n\ndef test_f(mx):\n    pass\n";
const T_BUF2: &str = "import pytest\n\ndef test_f(fx):\n    pass\n";
const T_BUF3: &str = "import pytest\n\n@pytest.fixture\ndef zx():\n    return 1\n";
const T_UNDECL: &str = "import pytest\n\ndef test_f():\n    fx.go()\n    assert gx\n";
const C_DISK: &str = "import pytest\n\n@pytest.fixture\ndef fx():\n    return 1\n\n@pytest.fixture\ndef gx(fx):\n    return 2\n";
const C_BUF: &str = "import pytest\n\n\n@pytest.fixture\ndef fx():\n    return 1\n\n@pytest.fixture\ndef hx(fx):\n    return 3\n";
const C_BUF2: &str = "import pytest\n\n@pytest.fixture\ndef gx():\n    return 2\n";
const C_BUF3: &str = "import pytest\n";
const G_TEXT: &str = "import pytest\n\n@pytest.fixture\ndef fx():\n    return 9\n\ndef test_g(fx, lx):\n    pass\n";

pub struct Case {
    pub sc: Scenario,
    pub file: &'static str,
    /// the editor's last content of F
    pub last: &'static str,
    /// a further change used for the restoration clause
    pub next: &'static str,
    pub with_g: bool,
    /// when set: the reference state is these operations run one after the other on a fresh index
    /// (the scan finishing first, then the editor's notifications) instead of the bare single analysis
    pub reference: Option<Vec<Op>>,
    /// further operation sequences whose end state is acceptable too (scenarios ending in didClose:
    /// the closed buffer's content once, or the on-disk content once — never both)
    pub also_ok: Vec<Vec<Op>>,
}

const ENTRY_STAR: &str = "from conftest import *\n";
const ENTRY_PLUGINS: &str = "pytest_plugins = [\"conftest\"]\n";

fn mark_plugin(rel: &'static str) -> Op {
    Op { desc: format!("pytest11 entry point registers {}", rel), f: Arc::new(move |db| { db.plugin_fixture_files.insert(crate::e1::p(rel), ()); }) }
}
fn phase4() -> Op {
    Op { desc: "scan's last phase: scan_imported_fixture_modules (marks modules pulled in by plugins, re-analyses the cached ones)".into(),
         f: Arc::new(|db| db.verif_scan_imported_fixture_modules(&crate::e1::p("ws"))) }
}

/// The scan's last phase ∥ editor notifications for a conftest.py that an entry-point plugin of the
/// workspace (editable install of the project itself) pulls in: the phase re-analyses that file.
fn phase4_cases(thorough: bool) -> Vec<Case> {
    let mut v = Vec::new();
    let f = "ws/conftest.py";
    for (how, entry) in [("star import", ENTRY_STAR), ("pytest_plugins", ENTRY_PLUGINS)] {
        if how == "pytest_plugins" && !thorough {
            continue;
        }
        // the scan visited F (disk) and the plugin entry module; the editor opened F before the last phase
        let pre_open = vec![mark_plugin("ws/entry_plugin.py"), analyze_fresh("ws/entry_plugin.py", entry), analyze_fresh(f, C_DISK), analyze(f, C_BUF)];
        let mut r = pre_open.clone();
        r.extend([phase4(), analyze(f, C_BUF2)]);
        v.push(Case { sc: Scenario { name: format!("{}: plugin pulls F in by {}; F open in the editor; scan's last phase ∥ didChange(buffer')", f, how), pre: pre_open.clone(), threads: vec![vec![phase4()], vec![analyze(f, C_BUF2)]] }, file: f, last: C_BUF2, next: C_BUF3, with_g: false, reference: Some(r), also_ok: vec![] });
        // F not yet open: didOpen arrives during the last phase
        let pre = vec![mark_plugin("ws/entry_plugin.py"), analyze_fresh("ws/entry_plugin.py", entry), analyze_fresh(f, C_DISK)];
        let mut r = pre.clone();
        r.extend([phase4(), analyze(f, C_BUF)]);
        v.push(Case { sc: Scenario { name: format!("{}: plugin pulls F in by {}; scan's last phase ∥ didOpen(buffer != disk)", f, how), pre, threads: vec![vec![phase4()], vec![analyze(f, C_BUF)]] }, file: f, last: C_BUF, next: C_BUF3, with_g: false, reference: Some(r), also_ok: vec![] });
    }
    v
}

pub fn cases(thorough: bool) -> Vec<Case> {
    let mut v = Vec::new();
    for (file, disk, buf, buf2, buf3) in [("ws/test_f.py", T_DISK, T_BUF, T_BUF2, T_BUF3), ("ws/conftest.py", C_DISK, C_BUF, C_BUF2, C_BUF3)] {
        // buffer == disk, didOpen only
        v.push(Case { sc: Scenario { name: format!("{}: scan(disk) ∥ didOpen(buffer == disk)", file), pre: vec![], threads: vec![vec![analyze_fresh(file, disk)], vec![analyze(file, disk)]] }, file, last: disk, next: buf3, with_g: false, reference: None, also_ok: vec![] });
        // buffer != disk, didOpen only
        v.push(Case { sc: Scenario { name: format!("{}: scan(disk) ∥ didOpen(buffer != disk)", file), pre: vec![], threads: vec![vec![analyze_fresh(file, disk)], vec![analyze(file, buf)]] }, file, last: buf, next: buf3, with_g: false, reference: None, also_ok: vec![] });
        // didOpen then didChange
        v.push(Case { sc: Scenario { name: format!("{}: scan(disk) ∥ didOpen(buffer) ; didChange(buffer')", file), pre: vec![], threads: vec![vec![analyze_fresh(file, disk)], vec![analyze(file, buf), analyze(file, buf2)]] }, file, last: buf2, next: buf3, with_g: false, reference: None, also_ok: vec![] });
        // the document is closed and opened again (or opened, closed, opened) while the scan worker is busy with it
        v.push(Case { sc: Scenario { name: format!("{}: scan(disk) ∥ didClose ; didOpen(buffer != disk)", file), pre: vec![], threads: vec![vec![analyze_fresh(file, disk)], vec![crate::e1::close(file), analyze(file, buf)]] }, file, last: buf, next: buf3, with_g: false, reference: None, also_ok: vec![] });
        // opened with an unsaved buffer and closed again while the scan is busy: afterwards the index holds
        // the buffer's content once (the scan skipped or preceded the open document) or the disk content
        // once (the scan came after the close) — never both
        v.push(Case { sc: Scenario { name: format!("{}: scan(disk) ∥ didOpen(buffer != disk) ; didClose", file), pre: vec![], threads: vec![vec![analyze_fresh(file, disk)], vec![analyze(file, buf), crate::e1::close(file)]] }, file, last: buf, next: buf3, with_g: false,
            reference: Some(vec![analyze(file, buf), crate::e1::close(file)]), also_ok: vec![vec![analyze_fresh(file, disk)]] });
        if thorough {
            v.push(Case { sc: Scenario { name: format!("{}: scan(disk) ∥ didOpen(buffer) ; didClose ; didOpen(buffer')", file), pre: vec![], threads: vec![vec![analyze_fresh(file, disk)], vec![analyze(file, buf), crate::e1::close(file), analyze(file, buf2)]] }, file, last: buf2, next: buf3, with_g: false, reference: None, also_ok: vec![] });
        }
        if thorough {
            // a second scan worker on another file G sharing names
            v.push(Case { sc: Scenario { name: format!("{}: scan(disk) ∥ didOpen(buffer != disk) ∥ scan(G)", file), pre: vec![], threads: vec![vec![analyze_fresh(file, disk)], vec![analyze(file, buf)], vec![analyze_fresh("ws/sub/test_g.py", G_TEXT)]] }, file, last: buf, next: buf3, with_g: true, reference: None, also_ok: vec![] });
        }
    }
    // a test file using a conftest fixture without declaring it is opened before / while the scan
    // reaches that conftest.py: whatever the order, one further notification for the test file (even
    // with unchanged text) must leave exactly the findings of a single analysis
    {
        let (cf, tf) = ("ws/conftest.py", "ws/test_f.py");
        let reference = vec![analyze_fresh(cf, C_DISK), analyze(tf, T_UNDECL)];
        v.push(Case { sc: Scenario { name: "ws/test_f.py (uses fx undeclared): scan(conftest.py) ∥ didOpen(test_f.py)".into(), pre: vec![], threads: vec![vec![analyze_fresh(cf, C_DISK)], vec![analyze(tf, T_UNDECL)]] },
            file: tf, last: T_UNDECL, next: T_BUF2, with_g: false, reference: Some(reference), also_ok: vec![] });
    }
    v.extend(phase4_cases(thorough));
    v
}

/// index (as `snap`) plus the undeclared-fixture findings recorded for `file`: after one further
/// notification for `file` those are part of the exact single-analysis state too
fn snap_with_findings(db: &FixtureDatabase, file: &str) -> Vec<String> {
    let mut v = snap(db);
    let tag = format!("UNDECL {} ", crate::db::rel(&crate::e1::p(file), crate::ws::ROOT));
    v.extend(crate::db::index_snapshot(db, crate::ws::ROOT, crate::db::IndexParts::ALL).into_iter().filter(|l| l.starts_with(&tag)));
    v.sort();
    v
}

fn reference_state(c: &Case, then: Option<&str>) -> Vec<String> {
    let Some(ops) = c.reference.clone() else {
        if let Some(t) = then {
            let (with_g, file, text) = (c.with_g, c.file.to_string(), t.to_string());
            return crate::seed::on_fresh_thread(move || {
                let db = FixtureDatabase::new();
                if with_g {
                    db.verif_analyze_file_fresh(crate::e1::p("ws/sub/test_g.py"), G_TEXT);
                }
                db.analyze_file(crate::e1::p(&file), &text);
                snap_with_findings(&db, &file)
            });
        }
        return single_analysis_state(c, c.last);
    };
    let (file, then) = (c.file.to_string(), then.map(|t| t.to_string()));
    crate::seed::on_fresh_thread(move || {
        let db = Arc::new(FixtureDatabase::new());
        for op in &ops {
            (op.f)(&db);
        }
        if let Some(t) = &then {
            db.analyze_file(crate::e1::p(&file), t);
            return snap_with_findings(&db, &file);
        }
        snap(&db)
    })
}

fn single_analysis_state(c: &Case, text: &str) -> Vec<String> {
    let with_g = c.with_g;
    let file = c.file.to_string();
    let text = text.to_string();
    crate::seed::on_fresh_thread(move || {
        let db = FixtureDatabase::new();
        if with_g {
            db.verif_analyze_file_fresh(crate::e1::p("ws/sub/test_g.py"), G_TEXT);
        }
        db.analyze_file(crate::e1::p(&file), &text);
        snap(&db)
    })
}

fn classify(got: &[String], want: &[String], file: &str) -> String {
    let f = file.trim_start_matches("ws/");
    let _ = f;
    let extra: Vec<&String> = got.iter().filter(|l| !want.contains(l)).collect();
    let missing: Vec<&String> = want.iter().filter(|l| !got.contains(l)).collect();
    let kind = |l: &&String| l.split(' ').next().unwrap_or("").to_string();
    let mut k: Vec<String> = extra.iter().map(|l| format!("extra-{}", kind(l))).chain(missing.iter().map(|l| format!("missing-{}", kind(l)))).collect();
    // multiplicity-only differences (same lines, different counts)
    if k.is_empty() {
        k.push("duplicated-entries".into());
    }
    k.sort();
    k.dedup();
    k.join(",")
}

pub fn run(rep: &'static Report) {
    let thorough = is_thorough();
    let cs = cases(thorough);
    let mut per: Vec<Value> = Vec::new();
    let (mut total_sched, mut total_points, mut total_states) = (0u64, 0u64, 0usize);
    let mut restored_checked = 0u64;
    for (collide, pname) in [(true, "Collide"), (false, "Split")] {
        set_placement(collide);
        for c in &cs {
            let want = reference_state(c, None);
            let want_next = reference_state(c, Some(c.next));
            let also: Vec<Vec<String>> = c.also_ok.iter().map(|ops| {
                let ops = ops.clone();
                crate::seed::on_fresh_thread(move || {
                    let db = Arc::new(FixtureDatabase::new());
                    for op in &ops {
                        (op.f)(&db);
                    }
                    snap(&db)
                })
            }).collect();
            // the scan's last phase has ≈4× the scheduling points of a single analysis: one preemption less
            let bound = match (c.sc.threads.len(), thorough, c.reference.is_some()) {
                (2, false, _) => 2,
                (2, true, false) => 4,
                (2, true, true) => 3,
                (_, _, _) => 2,
            };
            // distinct quiescent states: ordered fingerprint -> database (for the second clause)
            let quiescent: Mutex<BTreeMap<u64, Arc<FixtureDatabase>>> = Mutex::new(BTreeMap::new());
            let wrong = Mutex::new(0u64);
            let stats = explore_scenario(rep, &c.sc, pname, bound, 3_000_000, &|r, choices| {
                let case = || json!({"scenario": describe(&c.sc), "placement": pname, "choices": choices, "trace": vsched::trace_to_strings(&r.outcome)});
                if !r.outcome.panics.is_empty() {
                    rep.violation("panic during scan ∥ edit", &format!("{:?}", r.outcome.panics), case);
                }
                if let Some(a) = &r.outcome.abort {
                    if !matches!(a, vsched::Abort::Divergence(_) | vsched::Abort::Unmodelled(_)) {
                        rep.violation("deadlock or horizon overrun during scan ∥ edit", &format!("{:?}", a), case);
                    }
                }
                if let Some(s) = &r.snapshot {
                    if let Some(db) = &r.db {
                        // distinct = index incl. vector order AND recorded findings (they differ with the order of the analyses)
                        let all = crate::db::index_snapshot(db, crate::ws::ROOT, crate::db::IndexParts::ALL);
                        quiescent.lock().unwrap().entry(r.ordered ^ crate::db::hash_lines(&all)).or_insert_with(|| db.clone());
                    }
                    if *s != want && !also.contains(s) {
                        *wrong.lock().unwrap() += 1;
                        let kind = if c.file.ends_with("conftest.py") { "conftest" } else { "test file" };
                        let fp = format!("after scan ∥ edit the index is not the single analysis of the buffer ({}; buffer {} disk): {}", kind, if c.sc.name.contains("== disk") { "==" } else { "!=" }, classify(s, &want, c.file));
                        if !rep.count_if_seen(&fp) {
                            let extra: Vec<&String> = s.iter().filter(|l| !want.contains(l)).collect();
                            let missing: Vec<&String> = want.iter().filter(|l| !s.contains(l)).collect();
                            rep.violation(&fp, &format!("scenario {} [{}]: extra {:?}, missing {:?}", c.sc.name, pname, extra, missing), case);
                        }
                    }
                }
            });
            // second clause: one further change restores the exact single-analysis state, from
            // EVERY distinct quiescent state reached (including the violating ones)
            let q = quiescent.into_inner().unwrap();
            // the further notification carries a new text, or the same text once more
            let want_same = reference_state(c, Some(c.last));
            for ((_h, db), (nxt, want_next, how)) in q.iter().flat_map(|e| [(e, (c.next, &want_next, "didChange")), (e, (c.last, &want_same, "the same text sent once more"))]) {
                let (file, next) = (c.file.to_string(), nxt.to_string());
                let db2 = db.clone();
                let s = crate::seed::on_fresh_thread(move || {
                    let copy = crate::db::deep_clone(&db2);
                    copy.analyze_file(crate::e1::p(&file), &next);
                    snap_with_findings(&copy, &file)
                });
                restored_checked += 1;
                let _ = how;
                if s != *want_next {
                    let fp = format!("one further notification ({}) does not restore the single-analysis state: {}", how, classify(&s, want_next, c.file));
                    if !rep.count_if_seen(&fp) {
                        let extra: Vec<&String> = s.iter().filter(|l| !want_next.contains(l)).collect();
                        let missing: Vec<&String> = want_next.iter().filter(|l| !s.contains(l)).collect();
                        rep.violation(&fp, &format!("scenario {} [{}] then {}: extra {:?}, missing {:?}", c.sc.name, pname, how, extra, missing), || json!({"scenario": describe(&c.sc), "placement": pname, "then": nxt}));
                    }
                }
            }
            total_sched += stats.schedules;
            total_points += stats.points;
            total_states += stats.distinct_states;
            let w = *wrong.lock().unwrap();
            per.push(json!({"scenario": c.sc.name, "placement": pname, "preemption_bound_completed": bound, "schedules": stats.schedules, "scheduling_points": stats.points,
                "distinct_scheduler_states": stats.distinct_states, "distinct_quiescent_states": q.len(), "schedules_ending_in_a_wrong_index": w}));
            println!("  {} [{}] P≤{}: {} schedules, {} quiescent states, {} schedules end wrong", c.sc.name, pname, bound, stats.schedules, q.len(), w);
        }
    }
    // eviction round ∥ didChange: the safety-net eviction (more than 2000 cached texts) may only drop
    // text that equals the file on disk; a change notification that arrives while a round is under way
    // must not lose its text to it
    let ev = eviction_race(rep, thorough);
    total_sched += ev["schedules"].as_u64().unwrap_or(0);
    total_points += ev["scheduling_points"].as_u64().unwrap_or(0);
    rep.set("eviction_round_vs_change_notification", ev);
    // sequential layer on real trees: the notification lands before the whole scan or after it
    // (the two end points of "whatever the relative timing"), for every role a file can play in a
    // workspace that is itself an installed (editable) pytest plugin
    let tree_stats = real_tree_layer(rep);
    rep.set("real_tree_layer", tree_stats);
    // conformance with the real server (free-running, decides nothing by itself): initialize on a
    // workspace whose F exists on disk and immediately open F with a different buffer, without
    // waiting for the scan; afterwards the server must describe the buffer exactly once
    let runs = if thorough { 120 } else { 24 };
    let mut conf_ok = 0u64;
    for i in 0..runs {
        let (file, disk, buf) = if i % 2 == 0 { ("test_f.py", T_DISK, T_BUF) } else { ("conftest.py", C_DISK, C_BUF) };
        let sc = crate::e5::Scratch::new("c10");
        let ws = sc.path().join("ws");
        // some extra files so that the scan is still busy when the notification arrives
        for k in 0..(i % 7) * 20 {
            crate::e5::write_file(&ws, &format!("pkg{}/test_more{}.py", k % 5, k), G_TEXT);
        }
        crate::e5::write_file(&ws, file, disk);
        let mut srv = crate::e5::Server::spawn(&[]);
        if srv.initialize(Some(&ws)).is_err() {
            rep.machinery_error("C10 conformance: server did not initialise");
            continue;
        }
        let uri = format!("file://{}/{}", ws.display(), file);
        srv.did_open(&uri, buf);
        let _ = srv.wait_scan_complete();
        let _ = srv.wait_diagnostics(&uri);
        let sy = srv.request("textDocument/documentSymbol", json!({"textDocument": {"uri": uri}}));
        let mut names: Vec<String> = sy.ok().and_then(|v| v.as_array().cloned()).unwrap_or_default().iter().filter_map(|s| s["name"].as_str().map(|x| x.to_string())).collect();
        names.sort();
        let want: Vec<String> = if file == "test_f.py" { vec!["lx".into(), "mx".into()] } else { vec!["fx".into(), "hx".into()] };
        if names == want {
            conf_ok += 1;
        } else {
            rep.violation("real server: after scan ∥ didOpen the document's symbols are not those of the buffer", &format!("{}: symbols {:?}, buffer defines {:?}", file, names, want), || json!({"file": file, "disk": disk, "buffer": buf, "run": i}));
        }
        srv.shutdown();
        crate::report::tick();
    }
    rep.set("real_server_conformance_runs", json!({"runs": runs, "describing_the_buffer_exactly_once": conf_ok}));
    rep.set("states", total_states as u64);
    rep.set("transitions", total_points);
    rep.set("evaluations", total_sched + restored_checked);
    rep.set("schedules", total_sched);
    rep.set("restoration_checks", restored_checked);
    // explorations (scenario × placement) in which schedules other than the default one were executed
    rep.set("distinct_nontrivial", per.iter().filter(|p| p["schedules"].as_u64().unwrap_or(0) >= 2).count() as u64);
    rep.set("traces_validated_against_impl", total_sched);
    rep.set("per_scenario", json!(per));
    rep.set("exhaustive", true);
    rep.sample(describe(&cs[1].sc));
    rep.set("rule", "F ∈ {test file, conftest.py} × {buffer == disk, buffer != disk, didOpen followed by didChange, didClose followed by didOpen} (thorough: plus a second scan worker on a file sharing names): EVERY schedule with ≤P preemptions of the scan worker's analyze_file_fresh(F, disk) against the editor's analyze_file(F, buffer) calls, both key placements; at quiescence the whole index must equal a fresh index that analysed the editor's last content once; then, from EVERY distinct quiescent state reached, one more analyze_file(F, buffer'') must give exactly the single-analysis state of buffer''");
    rep.assume("the tokio layer is represented by model threads calling the same functions main.rs calls (did_open/did_change → analyze_file; scan phase 2 → analyze_file_fresh)");
}

/// F (conftest.py, really on disk) is open with the on-disk text — evictable; the cache holds 2000
/// texts; one more analysis starts an eviction round while the editor sends didChange(F, buffer');
/// afterwards the scan worker visits F. Every schedule (≤ P preemptions) must end with the buffer's
/// text cached for F and the index describing the buffer.
fn eviction_race(rep: &'static Report, thorough: bool) -> Value {
    let scratch = crate::e5::Scratch::new("c10ev");
    crate::e5::write_file(scratch.path(), "ws/conftest.py", C_DISK);
    let f = scratch.path().join("ws/conftest.py");
    let op = |desc: &str, g: Arc<dyn Fn(&Arc<FixtureDatabase>) + Send + Sync>| Op { desc: desc.to_string(), f: g };
    let (f1, f2, f3) = (f.clone(), f.clone(), f.clone());
    let sc = Scenario {
        name: "conftest.py open (== disk), 2000 cached texts: [analysis that starts an eviction round ; scan worker visits conftest.py] ∥ didChange(conftest.py, buffer')".into(),
        pre: vec![
            op("didOpen: analyze_file(conftest.py, <text on disk>)", Arc::new(move |db| db.analyze_file(f1.clone(), C_DISK))),
            op("1999 further cached texts of open documents (inserted into file_cache directly; none of them is on disk)", Arc::new(|db| {
                for i in 0..1999 {
                    db.file_cache.insert(std::path::PathBuf::from(format!("/nonexistent/open/doc{}.py", i)), Arc::new("x = 1\n".to_string()));
                }
            })),
        ],
        threads: vec![
            vec![
                op("analyze_file(/nonexistent/open/one_more.py) — the 2001st text: eviction round", Arc::new(|db| db.analyze_file(std::path::PathBuf::from("/nonexistent/open/one_more.py"), "x = 1\n"))),
                op("scan-worker analyze_file_fresh(conftest.py, <text on disk>)", Arc::new(move |db| db.verif_analyze_file_fresh(f2.clone(), C_DISK))),
            ],
            vec![op("didChange: analyze_file(conftest.py, buffer')", Arc::new(move |db| db.analyze_file(f3.clone(), C_BUF)))],
        ],
    };
    let want_defs: Vec<String> = {
        let db = FixtureDatabase::new();
        db.analyze_file(f.clone(), C_BUF);
        let mut v: Vec<String> = db.definitions.iter().flat_map(|e| e.value().iter().map(|d| format!("{}@{}", d.name, d.line)).collect::<Vec<_>>()).collect();
        v.sort();
        v
    };
    let bound = if thorough { 3 } else { 2 };
    let mut out = Vec::new();
    let (mut schedules, mut points) = (0u64, 0u64);
    for (collide, pname) in [(true, "Collide"), (false, "Split")] {
        set_placement(collide);
        let wrong = Mutex::new(0u64);
        let f = f.clone();
        let stats = explore_scenario(rep, &sc, pname, bound, 3_000_000, &|r, choices| {
            let case = || json!({"scenario": describe(&sc), "placement": pname, "choices": choices, "trace": vsched::trace_to_strings(&r.outcome)});
            if !r.outcome.panics.is_empty() {
                rep.violation("panic during eviction ∥ edit", &format!("{:?}", r.outcome.panics), case);
            }
            if let Some(a) = &r.outcome.abort {
                if !matches!(a, vsched::Abort::Divergence(_) | vsched::Abort::Unmodelled(_)) {
                    rep.violation("deadlock or horizon overrun during eviction ∥ edit", &format!("{:?}", a), case);
                }
                return;
            }
            let Some(db) = &r.db else { return };
            let text = db.file_cache.get(&f).map(|t| t.to_string());
            let mut defs: Vec<String> = db.definitions.iter().flat_map(|e| e.value().iter().filter(|d| d.file_path == f).map(|d| format!("{}@{}", d.name, d.line)).collect::<Vec<_>>()).collect();
            defs.sort();
            if text.as_deref() != Some(C_BUF) || defs != want_defs {
                *wrong.lock().unwrap() += 1;
                let fp = format!("an eviction round under way drops the text of a change notification{}", if defs != want_defs { "; the scan then indexes the on-disk content" } else { "" });
                if !rep.count_if_seen(&fp) {
                    rep.violation(&fp, &format!("[{}] cached text of conftest.py: {}; definitions in it {:?}, the buffer defines {:?}", pname,
                        match &text { None => "none".to_string(), Some(t) if t == C_DISK => "the on-disk text".to_string(), Some(t) if t == C_BUF => "the buffer".to_string(), Some(_) => "something else".to_string() }, defs, want_defs), case);
                }
            }
        });
        schedules += stats.schedules;
        points += stats.points;
        let w = *wrong.lock().unwrap();
        println!("  eviction round ∥ didChange [{}] P≤{}: {} schedules, {} end wrong", pname, bound, stats.schedules, w);
        out.push(json!({"placement": pname, "preemption_bound_completed": bound, "schedules": stats.schedules, "scheduling_points": stats.points, "schedules_ending_wrong": w}));
    }
    json!({"scenario": sc.name, "schedules": schedules, "scheduling_points": points, "per_placement": out})
}

fn plugin_ws(alt: Option<(&str, u8)>) -> crate::ws::Ws {
    use crate::ws::{FileSpec, Item, Ws};
    let mut files = vec![
        // the root conftest reaches deep.py through helpers.py (a chain two modules deep that only imports discover)
        FileSpec::new("conftest.py", vec![Item::StarImport { module: "helpers".into() }, Item::fixture("root_fx", &[])]),
        FileSpec::new("helpers.py", vec![Item::StarImport { module: "deep".into() }, Item::fixture("hx", &[])]),
        FileSpec::new("deep.py", vec![Item::fixture("deep_fx", &[])]),
        FileSpec { rel: "plug/myplug.py".into(), plugin: true, guarded_imports: false, items: vec![Item::StarImport { module: "shared".into() }, Item::StarImport { module: "conftest".into() }, Item::PytestPlugins { modules: vec!["more".into()] }, Item::fixture("pfx", &[])] },
        FileSpec::new("plug/shared.py", vec![Item::fixture("shx", &[])]),
        FileSpec::new("plug/more.py", vec![Item::fixture("mx", &[])]),
        FileSpec::new("plug/conftest.py", vec![Item::fixture("cfx", &["shx"])]),
        FileSpec::new("plug/test_p.py", vec![Item::fixture("lx", &["pfx"]), Item::test("p", &["lx", "cfx", "mx"])]),
        FileSpec::new("tests/test_a.py", vec![Item::test("a", &["root_fx", "pfx", "shx", "mx", "hx", "deep_fx"])]),
    ];
    if let Some((rel, version)) = alt {
        let f = files.iter_mut().find(|f| f.rel == rel).expect("file");
        // the editor's content: the first fixture renamed and moved down, one more fixture; tests request it
        let tag = if version == 0 { "edited" } else { "edited_again" };
        let mut items: Vec<Item> = f.items.iter().filter(|i| !matches!(i, Item::Fixture { .. } | Item::Test { .. })).cloned().collect();
        items.push(Item::Raw("X = 1\nY = 2".into()));
        items.push(Item::fixture(&format!("{}_fx", tag), &[]));
        if version == 0 {
            items.push(Item::fixture("extra_fx", &[&format!("{}_fx", tag)]));
        }
        if rel.contains("test_") {
            items.push(Item::test("z", &[&format!("{}_fx", tag), "root_fx"]));
        }
        f.items = items;
    }
    Ws { files }
}

/// didOpen(F, buffer) entirely before / entirely after the real scan_workspace of a real tree in
/// which F plays every role (plain conftest, test file, entry-point module of an editable install,
/// module star-imported by it, conftest star-imported by it, module in its pytest_plugins);
/// reference = the scan of a twin tree whose F already holds the buffer on disk.
fn real_tree_layer(rep: &'static Report) -> Value {
    use crate::db::{index_snapshot, IndexParts};
    let base = plugin_ws(None);
    let rels: Vec<String> = base.files.iter().map(|f| f.rel.clone()).collect();
    let (mut runs, mut roles) = (0u64, 0u64);
    let scan_snapshot = |ws: &crate::ws::Ws, edits_before: &[(String, String)], edits_after: &[(String, String)], disk: &crate::ws::Ws| -> Vec<String> {
        let sc = crate::e5::Scratch::new("c10t");
        let root = sc.path().join("ws");
        let _ = ws;
        crate::e5::materialize_with_venv(disk, &disk.render(), &root);
        let rs = root.to_string_lossy().to_string();
        let (b, a) = (edits_before.to_vec(), edits_after.to_vec());
        let root2 = root.clone();
        crate::seed::on_fresh_thread(move || {
            let db = FixtureDatabase::new();
            for (rel, text) in &b {
                db.analyze_file(root2.join(rel), text);
            }
            db.scan_workspace(&root2);
            for (rel, text) in &a {
                db.analyze_file(root2.join(rel), text);
            }
            index_snapshot(&db, &rs, IndexParts::CORE)
        })
    };
    for rel in &rels {
        roles += 1;
        let edited = plugin_ws(Some((rel, 0)));
        let edited2 = plugin_ws(Some((rel, 1)));
        let fi = base.file_index(rel).unwrap();
        let buf = edited.render().texts[fi].clone();
        let buf2 = edited2.render().texts[fi].clone();
        // reference: the twin trees
        let want = scan_snapshot(&edited, &[], &[], &edited);
        let want2 = scan_snapshot(&edited2, &[], &[], &edited2);
        for (timing, before, after) in [
            ("didOpen before the scan", vec![(rel.clone(), buf.clone())], vec![]),
            ("didOpen after the scan", vec![], vec![(rel.clone(), buf.clone())]),
            ("didOpen before the scan, didChange after it", vec![(rel.clone(), buf.clone())], vec![(rel.clone(), buf2.clone())]),
            ("didOpen and didChange before the scan", vec![(rel.clone(), buf.clone()), (rel.clone(), buf2.clone())], vec![]),
        ] {
            runs += 1;
            let got = scan_snapshot(&base, &before, &after, &base);
            let w = if timing.contains("didChange") { &want2 } else { &want };
            if got != *w {
                let role = match rel.as_str() {
                    "plug/myplug.py" => "entry-point module of the editable install",
                    "plug/shared.py" => "module star-imported by the plugin",
                    "plug/more.py" => "module in the plugin's pytest_plugins",
                    "plug/conftest.py" => "conftest.py star-imported by the plugin",
                    "plug/test_p.py" => "test file inside the plugin directory",
                    "conftest.py" => "plain conftest.py",
                    "helpers.py" => "module star-imported by the root conftest, importing a further module itself",
                    "deep.py" => "module at the end of an import chain",
                    _ => "plain test file",
                };
                let fp = format!("real scan + {}: the index does not describe the buffer exactly once ({}): {}", timing, role, classify(&got, w, rel));
                if !rep.count_if_seen(&fp) {
                    let extra: Vec<&String> = got.iter().filter(|l| !w.contains(l)).collect();
                    let missing: Vec<&String> = w.iter().filter(|l| !got.contains(l)).collect();
                    rep.violation(&fp, &format!("{}: extra {:?}, missing {:?}", rel, extra, missing), || json!({"real_tree": true, "file": rel, "timing": timing, "buffer": buf, "buffer2": buf2}));
                }
            }
        }
    }
    json!({"file_roles": roles, "timings": 4, "scans_compared_with_twin_tree": runs})
}

pub fn replay(v: &Value) {
    if v["real_tree"] == true {
        println!("real-tree case: file {} timing `{}`; buffer:\n{}", v["file"], v["timing"].as_str().unwrap_or(""), v["buffer"].as_str().unwrap_or(""));
        return;
    }
    let name = v["scenario"]["name"].as_str().unwrap_or("");
    let c = cases(true).into_iter().find(|c| c.sc.name == name).expect("scenario");
    set_placement(v["placement"] == "Collide");
    let choices: Vec<usize> = serde_json::from_value(v["choices"].clone()).unwrap_or_default();
    let r = crate::e1::run_schedule(&c.sc, &choices, 100_000);
    for l in vsched::trace_to_strings(&r.outcome) {
        println!("{}", l);
    }
    let want = reference_state(&c, None);
    println!("abort: {:?}", r.outcome.abort);
    if let Some(s) = &r.snapshot {
        println!("equals single analysis of the editor's content: {}", *s == want);
        for l in s.iter().filter(|l| !want.contains(l)) {
            println!("  extra   {}", l);
        }
        for l in want.iter().filter(|l| !s.contains(l)) {
            println!("  missing {}", l);
        }
    }
}
