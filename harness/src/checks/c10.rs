//! C10 — editor buffers win over the background scan.
//! Every schedule (≤ P preemptions) of {scan worker analysing F from disk} ∥ {didOpen / didChange
//! of F with buffer text}; oracle: the single-analysis state of the editor's last content.

use crate::checks::c09::{explore_scenario, set_placement};
use crate::e1::{analyze, analyze_fresh, describe, snap, Scenario};
use crate::report::{is_thorough, Report};
use pytest_language_server::FixtureDatabase;
use serde_json::{json, Value};
use std::collections::BTreeMap;
use std::sync::{Arc, Mutex};

const T_DISK: &str = "import pytest\n\n@pytest.fixture\ndef lx():\n    return 1\n\ndef test_f(lx, fx):\n    pass\n";
const T_BUF: &str = "import pytest\n\n\n@pytest.fixture\ndef lx():\n    return 1\n\n@pytest.fixture\ndef mx(lx):\n    return 2\n\ndef test_f(mx):\n    pass\n";
const T_BUF2: &str = "import pytest\n\ndef test_f(fx):\n    pass\n";
const T_BUF3: &str = "import pytest\n\n@pytest.fixture\ndef zx():\n    return 1\n";
const C_DISK: &str = "import pytest\n\n@pytest.fixture\ndef fx():\n    return 1\n\n@pytest.fixture\ndef gx(fx):\n    return 2\n";
const C_BUF: &str = "import pytest\n\n\n@pytest.fixture\ndef fx():\n    return 1\n\n@pytest.fixture\ndef hx(fx):\n    return 3\n";
const C_BUF2: &str = "import pytest\n\n@pytest.fixture\ndef gx():\n    return 2\n";
const C_BUF3: &str = "import pytest\n";
const G_TEXT: &str = "import pytest\n\n@pytest.fixture\ndef fx():\n    return 9\n\ndef test_g(fx, lx):\n    pass\n";

pub struct Case {
    pub sc: Scenario,
    pub file: &'static str,
    /// the editor's last content of F
    pub last: &'static str,
    /// a further change used for the restoration clause
    pub next: &'static str,
    pub with_g: bool,
}

pub fn cases(thorough: bool) -> Vec<Case> {
    let mut v = Vec::new();
    for (file, disk, buf, buf2, buf3) in [("ws/test_f.py", T_DISK, T_BUF, T_BUF2, T_BUF3), ("ws/conftest.py", C_DISK, C_BUF, C_BUF2, C_BUF3)] {
        // buffer == disk, didOpen only
        v.push(Case { sc: Scenario { name: format!("{}: scan(disk) ∥ didOpen(buffer == disk)", file), pre: vec![], threads: vec![vec![analyze_fresh(file, disk)], vec![analyze(file, disk)]] }, file, last: disk, next: buf3, with_g: false });
        // buffer != disk, didOpen only
        v.push(Case { sc: Scenario { name: format!("{}: scan(disk) ∥ didOpen(buffer != disk)", file), pre: vec![], threads: vec![vec![analyze_fresh(file, disk)], vec![analyze(file, buf)]] }, file, last: buf, next: buf3, with_g: false });
        // didOpen then didChange
        v.push(Case { sc: Scenario { name: format!("{}: scan(disk) ∥ didOpen(buffer) ; didChange(buffer')", file), pre: vec![], threads: vec![vec![analyze_fresh(file, disk)], vec![analyze(file, buf), analyze(file, buf2)]] }, file, last: buf2, next: buf3, with_g: false });
        if thorough {
            // a second scan worker on another file G sharing names
            v.push(Case { sc: Scenario { name: format!("{}: scan(disk) ∥ didOpen(buffer != disk) ∥ scan(G)", file), pre: vec![], threads: vec![vec![analyze_fresh(file, disk)], vec![analyze(file, buf)], vec![analyze_fresh("ws/sub/test_g.py", G_TEXT)]] }, file, last: buf, next: buf3, with_g: true });
        }
    }
    v
}

fn single_analysis_state(c: &Case, text: &str) -> Vec<String> {
    let with_g = c.with_g;
    let file = c.file.to_string();
    let text = text.to_string();
    crate::seed::on_fresh_thread(move || {
        let db = FixtureDatabase::new();
        if with_g {
            db.verif_analyze_file_fresh(crate::e1::p("ws/sub/test_g.py"), G_TEXT);
        }
        db.analyze_file(crate::e1::p(&file), &text);
        snap(&db)
    })
}

fn classify(got: &[String], want: &[String], file: &str) -> String {
    let f = file.trim_start_matches("ws/");
    let _ = f;
    let extra: Vec<&String> = got.iter().filter(|l| !want.contains(l)).collect();
    let missing: Vec<&String> = want.iter().filter(|l| !got.contains(l)).collect();
    let kind = |l: &&String| l.split(' ').next().unwrap_or("").to_string();
    let mut k: Vec<String> = extra.iter().map(|l| format!("extra-{}", kind(l))).chain(missing.iter().map(|l| format!("missing-{}", kind(l)))).collect();
    // multiplicity-only differences (same lines, different counts)
    if k.is_empty() {
        k.push("duplicated-entries".into());
    }
    k.sort();
    k.dedup();
    k.join(",")
}

pub fn run(rep: &'static Report) {
    let thorough = is_thorough();
    let cs = cases(thorough);
    let mut per: Vec<Value> = Vec::new();
    let (mut total_sched, mut total_points, mut total_states) = (0u64, 0u64, 0usize);
    let mut restored_checked = 0u64;
    for (collide, pname) in [(true, "Collide"), (false, "Split")] {
        set_placement(collide);
        for c in &cs {
            let want = single_analysis_state(c, c.last);
            let want_next = single_analysis_state(c, c.next);
            let bound = match (c.sc.threads.len(), thorough) {
                (2, false) => 2,
                (2, true) => 4,
                (_, _) => 2,
            };
            // distinct quiescent states: ordered fingerprint -> database (for the second clause)
            let quiescent: Mutex<BTreeMap<u64, Arc<FixtureDatabase>>> = Mutex::new(BTreeMap::new());
            let wrong = Mutex::new(0u64);
            let stats = explore_scenario(rep, &c.sc, pname, bound, 3_000_000, &|r, choices| {
                let case = || json!({"scenario": describe(&c.sc), "placement": pname, "choices": choices, "trace": vsched::trace_to_strings(&r.outcome)});
                if !r.outcome.panics.is_empty() {
                    rep.violation("panic during scan ∥ edit", &format!("{:?}", r.outcome.panics), case);
                }
                if let Some(a) = &r.outcome.abort {
                    if !matches!(a, vsched::Abort::Divergence(_) | vsched::Abort::Unmodelled(_)) {
                        rep.violation("deadlock or horizon overrun during scan ∥ edit", &format!("{:?}", a), case);
                    }
                }
                if let Some(s) = &r.snapshot {
                    if let Some(db) = &r.db {
                        quiescent.lock().unwrap().entry(r.ordered ^ crate::db::hash_lines(s)).or_insert_with(|| db.clone());
                    }
                    if *s != want {
                        *wrong.lock().unwrap() += 1;
                        let kind = if c.file.ends_with("conftest.py") { "conftest" } else { "test file" };
                        let fp = format!("after scan ∥ edit the index is not the single analysis of the buffer ({}; buffer {} disk): {}", kind, if c.sc.name.contains("== disk") { "==" } else { "!=" }, classify(s, &want, c.file));
                        if !rep.count_if_seen(&fp) {
                            let extra: Vec<&String> = s.iter().filter(|l| !want.contains(l)).collect();
                            let missing: Vec<&String> = want.iter().filter(|l| !s.contains(l)).collect();
                            rep.violation(&fp, &format!("scenario {} [{}]: extra {:?}, missing {:?}", c.sc.name, pname, extra, missing), case);
                        }
                    }
                }
            });
            // second clause: one further change restores the exact single-analysis state, from
            // EVERY distinct quiescent state reached (including the violating ones)
            let q = quiescent.into_inner().unwrap();
            for (_h, db) in q.iter() {
                let (file, next) = (c.file.to_string(), c.next.to_string());
                let db2 = db.clone();
                let s = crate::seed::on_fresh_thread(move || {
                    let copy = crate::db::deep_clone(&db2);
                    copy.analyze_file(crate::e1::p(&file), &next);
                    snap(&copy)
                });
                restored_checked += 1;
                if s != want_next {
                    let fp = format!("one further change does not restore the single-analysis state: {}", classify(&s, &want_next, c.file));
                    if !rep.count_if_seen(&fp) {
                        let extra: Vec<&String> = s.iter().filter(|l| !want_next.contains(l)).collect();
                        let missing: Vec<&String> = want_next.iter().filter(|l| !s.contains(l)).collect();
                        rep.violation(&fp, &format!("scenario {} [{}] then didChange: extra {:?}, missing {:?}", c.sc.name, pname, extra, missing), || json!({"scenario": describe(&c.sc), "placement": pname, "then": c.next}));
                    }
                }
            }
            total_sched += stats.schedules;
            total_points += stats.points;
            total_states += stats.distinct_states;
            let w = *wrong.lock().unwrap();
            per.push(json!({"scenario": c.sc.name, "placement": pname, "preemption_bound_completed": bound, "schedules": stats.schedules, "scheduling_points": stats.points,
                "distinct_scheduler_states": stats.distinct_states, "distinct_quiescent_states": q.len(), "schedules_ending_in_a_wrong_index": w}));
            println!("  {} [{}] P≤{}: {} schedules, {} quiescent states, {} schedules end wrong", c.sc.name, pname, bound, stats.schedules, q.len(), w);
        }
    }
    // conformance with the real server (free-running, decides nothing by itself): initialize on a
    // workspace whose F exists on disk and immediately open F with a different buffer, without
    // waiting for the scan; afterwards the server must describe the buffer exactly once
    let runs = if thorough { 120 } else { 24 };
    let mut conf_ok = 0u64;
    for i in 0..runs {
        let (file, disk, buf) = if i % 2 == 0 { ("test_f.py", T_DISK, T_BUF) } else { ("conftest.py", C_DISK, C_BUF) };
        let sc = crate::e5::Scratch::new("c10");
        let ws = sc.path().join("ws");
        // some extra files so that the scan is still busy when the notification arrives
        for k in 0..(i % 7) * 20 {
            crate::e5::write_file(&ws, &format!("pkg{}/test_more{}.py", k % 5, k), G_TEXT);
        }
        crate::e5::write_file(&ws, file, disk);
        let mut srv = crate::e5::Server::spawn(&[]);
        if srv.initialize(Some(&ws)).is_err() {
            rep.machinery_error("C10 conformance: server did not initialise");
            continue;
        }
        let uri = format!("file://{}/{}", ws.display(), file);
        srv.did_open(&uri, buf);
        let _ = srv.wait_scan_complete();
        let _ = srv.wait_diagnostics(&uri);
        let sy = srv.request("textDocument/documentSymbol", json!({"textDocument": {"uri": uri}}));
        let mut names: Vec<String> = sy.ok().and_then(|v| v.as_array().cloned()).unwrap_or_default().iter().filter_map(|s| s["name"].as_str().map(|x| x.to_string())).collect();
        names.sort();
        let want: Vec<String> = if file == "test_f.py" { vec!["lx".into(), "mx".into()] } else { vec!["fx".into(), "hx".into()] };
        if names == want {
            conf_ok += 1;
        } else {
            rep.violation("real server: after scan ∥ didOpen the document's symbols are not those of the buffer", &format!("{}: symbols {:?}, buffer defines {:?}", file, names, want), || json!({"file": file, "disk": disk, "buffer": buf, "run": i}));
        }
        srv.shutdown();
    }
    rep.set("real_server_conformance_runs", json!({"runs": runs, "describing_the_buffer_exactly_once": conf_ok}));
    rep.set("states", total_states as u64);
    rep.set("transitions", total_points);
    rep.set("evaluations", total_sched + restored_checked);
    rep.set("schedules", total_sched);
    rep.set("restoration_checks", restored_checked);
    // explorations (scenario × placement) in which schedules other than the default one were executed
    rep.set("distinct_nontrivial", per.iter().filter(|p| p["schedules"].as_u64().unwrap_or(0) >= 2).count() as u64);
    rep.set("traces_validated_against_impl", total_sched);
    rep.set("per_scenario", json!(per));
    rep.set("exhaustive", true);
    rep.sample(describe(&cs[1].sc));
    rep.set("rule", "F ∈ {test file, conftest.py} × {buffer == disk, buffer != disk, didOpen followed by didChange} (thorough: plus a second scan worker on a file sharing names): EVERY schedule with ≤P preemptions of the scan worker's analyze_file_fresh(F, disk) against the editor's analyze_file(F, buffer) calls, both key placements; at quiescence the whole index must equal a fresh index that analysed the editor's last content once; then, from EVERY distinct quiescent state reached, one more analyze_file(F, buffer'') must give exactly the single-analysis state of buffer''");
    rep.assume("the tokio layer is represented by model threads calling the same functions main.rs calls (did_open/did_change → analyze_file; scan phase 2 → analyze_file_fresh)");
}

pub fn replay(v: &Value) {
    let name = v["scenario"]["name"].as_str().unwrap_or("");
    let c = cases(true).into_iter().find(|c| c.sc.name == name).expect("scenario");
    set_placement(v["placement"] == "Collide");
    let choices: Vec<usize> = serde_json::from_value(v["choices"].clone()).unwrap_or_default();
    let r = crate::e1::run_schedule(&c.sc, &choices, 100_000);
    for l in vsched::trace_to_strings(&r.outcome) {
        println!("{}", l);
    }
    let want = single_analysis_state(&c, c.last);
    println!("abort: {:?}", r.outcome.abort);
    if let Some(s) = &r.snapshot {
        println!("equals single analysis of the editor's content: {}", *s == want);
        for l in s.iter().filter(|l| !want.contains(l)) {
            println!("  extra   {}", l);
        }
        for l in want.iter().filter(|l| !s.contains(l)) {
            println!("  missing {}", l);
        }
    }
}
