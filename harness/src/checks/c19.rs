//! C19 — published diagnostics track the latest content and the configuration.
//! Enumeration of editing sessions against the REAL binary over stdio; oracle = a fresh library
//! index of the latest valid contents, filtered by the reference configuration semantics.

use crate::e5::{write_file, Scratch, Server};
use crate::report::{is_thorough, par_batches, Report};
use pytest_language_server::FixtureDatabase;
use serde_json::{json, Value};
use std::collections::BTreeSet;
use std::path::Path;
use std::sync::atomic::{AtomicU64, Ordering};

const DOCS: [&str; 2] = ["conftest.py", "test_d.py"];

fn versions(doc: usize) -> Vec<(&'static str, &'static str)> {
    if doc == 0 {
        vec![
            ("plain fx", "import pytest\n\n@pytest.fixture\ndef fx():\n    return 1\n"),
            ("fx and gx form a cycle", "import pytest\n\n@pytest.fixture\ndef fx(gx):\n    return 1\n\n@pytest.fixture\ndef gx(fx):\n    return 2\n"),
            ("session-scoped sx depends on function-scoped fx", "import pytest\n\n@pytest.fixture\ndef fx():\n    return 1\n\n@pytest.fixture(scope=\"session\")\ndef sx(fx):\n    return 2\n"),
            ("empty", "import pytest\n"),
            ("the same cycle, three lines lower", "import pytest\n\nA = 1\nB = 2\n\n@pytest.fixture\ndef fx(gx):\n    return 1\n\n@pytest.fixture\ndef gx(fx):\n    return 2\n"),
        ]
    } else {
        vec![
            ("clean", "def test_d(fx):\n    assert fx\n"),
            ("uses fx undeclared in the body", "def test_d():\n    assert fx\n    fx.go()\n"),
            ("declares it", "def test_d(fx):\n    fx.go()\n"),
            ("broken syntax", "def test_d(:\n    fx\n"),
        ]
    }
}

const CODES: [&str; 3] = ["undeclared-fixture", "circular-dependency", "scope-mismatch"];

#[derive(Clone, Debug)]
struct Config {
    desc: String,
    toml: Option<String>,
    /// codes the reference semantics consider disabled
    disabled: Vec<&'static str>,
}

fn configs() -> Vec<Config> {
    let mut v = Vec::new();
    for mask in 0u8..8 {
        let dis: Vec<&'static str> = (0..3).filter(|i| mask & (1 << i) != 0).map(|i| CODES[i]).collect();
        let list = |extra: &[&str]| {
            let mut all: Vec<String> = dis.iter().map(|c| format!("\"{}\"", c)).collect();
            all.extend(extra.iter().map(|c| format!("\"{}\"", c)));
            all.join(", ")
        };
        v.push(Config { desc: format!("valid, disabled={:?}", dis), toml: Some(format!("[tool.pytest-language-server]\ndisabled_diagnostics = [{}]\n", list(&[]))), disabled: dis.clone() });
        v.push(Config { desc: format!("unknown code mixed in, disabled={:?}", dis), toml: Some(format!("[tool.pytest-language-server]\ndisabled_diagnostics = [{}]\n", list(&["no-such-code"]))), disabled: dis.clone() });
        v.push(Config { desc: format!("invalid glob mixed in, disabled={:?}", dis), toml: Some(format!("[tool.pytest-language-server]\nexclude = [\"[unclosed\", \"build/**\"]\ndisabled_diagnostics = [{}]\n", list(&[]))), disabled: dis.clone() });
        v.push(Config { desc: format!("wrong type for another key (whole section unusable), disabled={:?}", dis), toml: Some(format!("[tool.pytest-language-server]\nexclude = 5\ndisabled_diagnostics = [{}]\n", list(&[]))), disabled: vec![] });
        v.push(Config { desc: format!("malformed TOML, disabled={:?}", dis), toml: Some(format!("[tool.pytest-language-server\ndisabled_diagnostics = [{}]\n", list(&[]))), disabled: vec![] });
    }
    v.push(Config { desc: "no pyproject.toml".into(), toml: None, disabled: vec![] });
    v
}

type Diag = (u64, u64, u64, u64, String, String, u64); // start line, start col, end line, end col, code, message, severity

fn expected(db: &FixtureDatabase, path: &Path, disabled: &[&str]) -> BTreeSet<Diag> {
    let mut s = BTreeSet::new();
    if !disabled.contains(&"undeclared-fixture") {
        for u in db.get_undeclared_fixtures(path) {
            let l = (u.line - 1) as u64;
            s.insert((l, u.start_char as u64, l, u.end_char as u64, "undeclared-fixture".to_string(), format!("Fixture '{}' is used but not declared as a parameter", u.name), 2));
        }
    }
    if !disabled.contains(&"circular-dependency") {
        for c in db.detect_fixture_cycles_in_file(path) {
            let l = (c.fixture.line - 1) as u64;
            s.insert((l, c.fixture.start_char as u64, l, c.fixture.end_char as u64, "circular-dependency".to_string(), format!("Circular fixture dependency detected: {}", c.cycle_path.join(" → ")), 1));
        }
    }
    if !disabled.contains(&"scope-mismatch") {
        for m in db.detect_scope_mismatches_in_file(path) {
            let l = (m.fixture.line - 1) as u64;
            s.insert((l, m.fixture.start_char as u64, l, m.fixture.end_char as u64, "scope-mismatch".to_string(), format!("{}-scoped fixture '{}' depends on {}-scoped fixture '{}'", m.fixture.scope.as_str(), m.fixture.name, m.dependency.scope.as_str(), m.dependency.name), 2));
        }
    }
    s
}

fn parse_diags(v: &Value) -> (BTreeSet<Diag>, usize) {
    let mut s = BTreeSet::new();
    let a = v.as_array().cloned().unwrap_or_default();
    for d in &a {
        s.insert((
            d["range"]["start"]["line"].as_u64().unwrap_or(u64::MAX),
            d["range"]["start"]["character"].as_u64().unwrap_or(u64::MAX),
            d["range"]["end"]["line"].as_u64().unwrap_or(u64::MAX),
            d["range"]["end"]["character"].as_u64().unwrap_or(u64::MAX),
            d["code"].as_str().unwrap_or("").to_string(),
            d["message"].as_str().unwrap_or("").to_string(),
            d["severity"].as_u64().unwrap_or(0),
        ));
    }
    (s, a.len())
}

/// One session against the real binary; returns the number of notifications checked.
fn session(rep: &Report, cfg: &Config, hist: &[(usize, usize)], two_events: bool) -> u64 {
    let sc = Scratch::new("c19");
    let ws = sc.path().join("ws");
    std::fs::create_dir_all(&ws).unwrap();
    if let Some(t) = &cfg.toml {
        write_file(&ws, "pyproject.toml", t);
    }
    let mut srv = Server::spawn(&[]);
    let case = || json!({"change_notifications_carry_two_events": two_events, "config": cfg.desc, "pyproject": cfg.toml, "history": hist.iter().map(|(d, v)| json!({"doc": DOCS[*d], "version": versions(*d)[*v].0, "text": versions(*d)[*v].1})).collect::<Vec<_>>()});
    if srv.initialize(Some(&ws)).is_err() || srv.wait_scan_complete().is_err() {
        rep.violation("server did not initialise / finish its scan", &cfg.desc, case);
        return 0;
    }
    let mut opened = [false; 2];
    let mut checked = 0u64;
    // last valid text per document, and the order of their last valid changes
    let mut last_valid: [Option<&str>; 2] = [None, None];
    let mut valid_order: Vec<usize> = Vec::new();
    for (step, (d, v)) in hist.iter().enumerate() {
        let path = ws.join(DOCS[*d]);
        let uri = format!("file://{}", path.display());
        let text = versions(*d)[*v].1;
        let ok = if !opened[*d] {
            opened[*d] = true;
            srv.did_open(&uri, text)
        } else if two_events {
            // the notification carries two full-document events: another version first, the new content last
            let other = versions(*d)[(*v + 1) % versions(*d).len()].1;
            srv.did_change_events(&uri, (step + 2) as i64, &[other, text])
        } else {
            srv.did_change(&uri, (step + 2) as i64, text)
        };
        let broken = *d == 1 && *v == 3;
        if !broken {
            last_valid[*d] = Some(text);
            valid_order.retain(|x| x != d);
            valid_order.push(*d);
        }
        // oracle: a FRESH index of the latest valid contents, the changed document analysed last
        let db = FixtureDatabase::new();
        for o in valid_order.iter().filter(|o| *o != d).chain(valid_order.iter().filter(|o| *o == d)) {
            if let Some(t) = last_valid[*o] {
                db.analyze_file(ws.join(DOCS[*o]), t);
            }
        }
        let mut want = expected(&db, &path, &cfg.disabled);
        let got = if ok { srv.wait_diagnostics(&uri) } else { Err(crate::e5::RpcErr::Died) };
        checked += 1;
        match got {
            Ok(dv) => {
                let (mut got, mut n) = parse_diags(&dv);
                if broken {
                    // while the document is unparsable its body findings are those of an earlier
                    // analysis (what was visible then); only the dependency diagnostics are judged
                    want.retain(|x| x.4 != "undeclared-fixture");
                    got.retain(|x| x.4 != "undeclared-fixture");
                    n = got.len();
                }
                if got != want || n != want.len() {
                    let extra: Vec<&Diag> = got.difference(&want).collect();
                    let missing: Vec<&Diag> = want.difference(&got).collect();
                    let kinds: BTreeSet<String> = extra.iter().map(|d| format!("extra {}", d.4)).chain(missing.iter().map(|d| format!("missing {}", d.4))).collect();
                    let cfgk = cfg.desc.split(',').next().unwrap_or("").to_string();
                    let dup = if got == want && n != want.len() { " duplicated-entries" } else { "" };
                    let fp = format!("published diagnostics differ from the findings for the latest content [{}]: {:?}{}", cfgk, kinds, dup);
                    if !rep.count_if_seen(&fp) {
                        rep.violation(&fp, &format!("after step {} ({} := {}): extra {:?}, missing {:?} ({} published)", step, DOCS[*d], versions(*d)[*v].0, extra, missing, n), case);
                    }
                }
            }
            Err(e) => {
                rep.violation("no publishDiagnostics after a notification (server died or wedged)", &format!("{:?} at step {}", e, step), case);
                return checked;
            }
        }
    }
    if !srv.alive() {
        rep.violation("server process died during the session", &cfg.desc, case);
    }
    srv.shutdown();
    checked
}

pub fn run(rep: &'static Report) {
    let thorough = is_thorough();
    let depth = if thorough { 5 } else { 4 };
    let cfgs = configs();
    // (a) every history of exactly `depth` notifications (all shorter ones are prefixes, checked
    //     after every step) under the default configuration
    let actions: Vec<(usize, usize)> = (0..2).flat_map(|d| (0..versions(d).len()).map(move |v| (d, v))).collect();
    let mut hists: Vec<Vec<(usize, usize)>> = vec![vec![]];
    for _ in 0..depth {
        let mut next = Vec::new();
        for h in &hists {
            for a in &actions {
                let mut x = h.clone();
                x.push(*a);
                next.push(x);
            }
        }
        hists = next;
    }
    let none = cfgs.iter().find(|c| c.toml.is_none()).unwrap().clone();
    let checked = AtomicU64::new(0);
    let sessions = AtomicU64::new(0);
    let states = std::sync::Mutex::new(BTreeSet::new());
    par_batches(&hists, 8, |_i, h| {
        checked.fetch_add(session(rep, &none, h, false), Ordering::Relaxed);
        sessions.fetch_add(1, Ordering::Relaxed);
        let mut cur = [None, None];
        for (d, v) in h {
            cur[*d] = Some(*v);
            states.lock().unwrap().insert((cur[0], cur[1], *d, 0usize));
        }
    });
    // (b) every configuration × fixed histories that raise all three kinds of findings and clear them
    let fixed: Vec<Vec<(usize, usize)>> = vec![
        vec![(0, 1), (1, 1), (0, 0), (1, 2)],
        vec![(0, 2), (1, 1), (1, 3), (0, 3)],
        vec![(1, 1), (0, 1), (0, 2), (1, 0)],
    ];
    let cases: Vec<(usize, usize)> = (0..cfgs.len()).flat_map(|c| (0..fixed.len()).map(move |f| (c, f))).collect();
    par_batches(&cases, 8, |_i, (c, f)| {
        checked.fetch_add(session(rep, &cfgs[*c], &fixed[*f], false), Ordering::Relaxed);
        sessions.fetch_add(1, Ordering::Relaxed);
        let mut cur = [None, None];
        for (d, v) in &fixed[*f] {
            cur[*d] = Some(*v);
            states.lock().unwrap().insert((cur[0], cur[1], *d, *c + 1));
        }
    });
    // (c) every history of depth 3 again, each change notification carrying two full-document events
    let short: Vec<Vec<(usize, usize)>> = {
        let mut hs: Vec<Vec<(usize, usize)>> = vec![vec![]];
        for _ in 0..3 {
            hs = hs.iter().flat_map(|h| actions.iter().map(move |a| { let mut x = h.clone(); x.push(*a); x })).collect();
        }
        hs
    };
    par_batches(&short, 8, |_i, h| {
        checked.fetch_add(session(rep, &none, h, true), Ordering::Relaxed);
        sessions.fetch_add(1, Ordering::Relaxed);
    });
    rep.set("two_event_sessions", short.len() as u64);
    let s = sessions.load(Ordering::Relaxed);
    rep.set("states", states.lock().unwrap().len() as u64);
    rep.set("transitions", checked.load(Ordering::Relaxed));
    rep.set("evaluations", checked.load(Ordering::Relaxed));
    rep.set("sessions_against_real_binary", s);
    rep.set("distinct_nontrivial", cfgs.len() as u64);
    rep.set("traces_validated_against_impl", s);
    rep.set("configurations", cfgs.len() as u64);
    rep.set("history_depth", depth as u64);
    rep.set("exhaustive", true);
    rep.sample(json!({"config": cfgs[9].desc, "pyproject": cfgs[9].toml, "history": fixed[0].iter().map(|(d, v)| format!("{} := {}", DOCS[*d], versions(*d)[*v].0)).collect::<Vec<_>>()}));
    rep.set("rule", "sessions with the REAL server binary over stdio on a tmpfs workspace (documents exist only in the editor; the client waits for the scan-complete log message first): (a) EVERY history of didOpen/didChange notifications of the stated depth over 2 documents × 5+4 versions (cycle, the same cycle three lines lower, scope mismatch, undeclared use, declared, broken syntax, empty), checked after every notification, default configuration; (c) every history of depth 3 once more with every change notification carrying two full-document events (another version first, the new content last: the document's content is the last event's); (b) every configuration — 8 subsets of disabled codes × {valid, unknown code mixed in, invalid glob mixed in, wrong type for another key, malformed TOML} + no file — under 3 fixed histories that raise and clear all three kinds of findings; oracle = a FRESH library index of the latest valid content of every document (the changed one analysed last), rendered with the publishing conventions and filtered by the reference configuration semantics; states = (conftest version, test version, last-changed document, configuration)");
    rep.assume("a pyproject.toml whose section has a key of the wrong type is treated like an unparsable file (defaults: nothing disabled)");
}
