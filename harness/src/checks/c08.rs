//! C08 — answers do not depend on scan order, thread schedule or process run.
//! Every permutation of the per-file analysis order (both analysis paths) over workspaces with
//! colliding names; hash-seed sweep; real rayon scan with several pool sizes as conformance.

use crate::db::{answer_snapshot, build_db, build_db_at, hash_lines, permutations};
use crate::e5::{materialize, Scratch};
use crate::layouts::Layout;
use crate::lsp::Lsp;
use crate::report::{is_thorough, par_batches, Report};
use crate::ws::{FileSpec, Item, Ws, ROOT};
use pytest_language_server::FixtureDatabase;
use serde_json::json;
use std::path::PathBuf;
use std::sync::atomic::{AtomicU64, Ordering};
use std::sync::Arc;

fn full_snapshot(db: FixtureDatabase, ws: &Ws, root: &str) -> Vec<String> {
    let files: Vec<PathBuf> = (0..ws.files.len()).map(|i| ws.path_in(root, i)).collect();
    let mut v = answer_snapshot(&db, root, &files);
    // symbols through the real handlers (as multisets)
    let db = Arc::new(db);
    let lsp = Lsp::new(db.clone(), None);
    let mut sy: Vec<String> = lsp
        .workspace_symbol("")
        .ok()
        .flatten()
        .unwrap_or_default()
        .iter()
        .map(|s| format!("{} {}:{}", s.name, crate::db::rel(&crate::lsp::path_of(&s.location.uri), root), s.location.range.start.line))
        .collect();
    sy.sort();
    v.push(format!("WSYM {:?}", sy));
    for f in &files {
        let mut ds: Vec<String> = lsp
            .document_symbol(f)
            .ok()
            .flatten()
            .unwrap_or_default()
            .iter()
            .map(|s| format!("{}@{}", s.name, s.range.start.line))
            .collect();
        ds.sort();
        v.push(format!("DSYM {} {:?}", crate::db::rel(f, root), ds));
    }
    v
}

/// extra workspaces with same-named plugin / third-party duplicates and override cycles
fn extra_workspaces() -> Vec<Ws> {
    let tp = |pkg: &str, items: Vec<Item>| FileSpec::new(&format!(".venv/lib/python3.11/site-packages/{}/plugin.py", pkg), items);
    let plug = |name: &str, items: Vec<Item>| {
        let mut f = FileSpec::new(&format!("plug/{}.py", name), items);
        f.plugin = true;
        f
    };
    let user = FileSpec::new("t/test_u.py", vec![Item::test("p", &["fx"]), Item::fixture("gx", &["fx"])]);
    vec![
        // two third-party packages define the same name
        Ws { files: vec![tp("tp1", vec![Item::fixture("fx", &[])]), tp("tp2", vec![Item::fixture("fx", &[])]), user.clone()] },
        // two workspace plugins define the same name
        Ws { files: vec![plug("p1", vec![Item::fixture("fx", &[])]), plug("p2", vec![Item::fixture("fx", &[])]), user.clone()] },
        // plugin + third-party + conftest override chain with a cycle through the overridden name
        Ws { files: vec![
            tp("tp1", vec![Item::fixture("fx", &[])]),
            plug("p1", vec![Item::fixture("fx", &[])]),
            FileSpec::new("conftest.py", vec![Item::fixture("fx", &["fx"]), Item::fixture("hx", &["gx"])]),
            FileSpec::new("t/conftest.py", vec![Item::fixture("fx", &["fx"])]),
            user.clone(),
        ] },
        // cycle across files + shadowed scopes
        Ws { files: vec![
            FileSpec::new("conftest.py", vec![Item::scoped("a", &["b"], crate::ws::Scope::Session), Item::fixture("b", &["a"])]),
            FileSpec::new("t/conftest.py", vec![Item::scoped("b", &[], crate::ws::Scope::Module), Item::scoped("c", &["b"], crate::ws::Scope::Session)]),
            FileSpec::new("t/test_u.py", vec![Item::test("p", &["a", "b", "c"]), Item::fixture("b", &["b"])]),
        ] },
        // a conftest importing from two helper modules that define the same name
        Ws { files: vec![
            FileSpec::new("conftest.py", vec![Item::StarImport { module: "ha".into() }, Item::StarImport { module: "hb".into() }]),
            FileSpec::new("ha.py", vec![Item::fixture("fx", &[])]),
            FileSpec::new("hb.py", vec![Item::fixture("fx", &[])]),
            FileSpec::new("test_u.py", vec![Item::test("p", &["fx"])]),
        ] },
        // the same through a re-export chain and an explicit import
        Ws { files: vec![
            FileSpec::new("conftest.py", vec![Item::ExplicitImport { module: "ha".into(), names: vec!["fx".into()] }, Item::PytestPlugins { modules: vec!["hc".into()] }]),
            FileSpec::new("ha.py", vec![Item::fixture("fx", &[])]),
            FileSpec::new("hc.py", vec![Item::StarImport { module: "hb".into() }]),
            FileSpec::new("hb.py", vec![Item::fixture("fx", &[])]),
            FileSpec::new("test_u.py", vec![Item::test("p", &["fx"])]),
        ] },
    ]
}

pub fn run(rep: &'static Report) {
    let thorough = is_thorough();
    let max_files_all_orders = if thorough { 6 } else { 5 };
    let mut wss: Vec<Ws> = extra_workspaces();
    let n_extra = wss.len();
    // layouts with ≥2 definers (collisions), at most max_files files
    for lay in Layout::enumerate(if thorough { 3 } else { 2 }, false) {
        let ws = lay.to_ws();
        let definers = ws.files.iter().filter(|f| f.defines("fx")).count();
        if definers >= 2 && ws.files.len() <= max_files_all_orders {
            wss.push(ws);
        }
    }
    let n_lay = wss.len() - n_extra;
    for ch in crate::checks::c02::Chain::enumerate(if thorough { 3 } else { 2 }, 3) {
        let ws = ch.to_ws();
        if ws.files.len() <= max_files_all_orders && ch.links.len() >= 2 {
            wss.push(ws);
        }
    }
    let n_chain = wss.len() - n_extra - n_lay;
    let seeds: Vec<u64> = if thorough { (1..=16).collect() } else { (1..=4).collect() };
    let dbs = AtomicU64::new(0);
    let states = std::sync::Mutex::new(std::collections::HashSet::new());
    let orders_total = AtomicU64::new(0);
    par_batches(&wss, 4, |i, ws| {
        let r = ws.render();
        let n = ws.files.len();
        let mut reference: Option<(Vec<String>, Vec<usize>, bool)> = None;
        for perm in permutations(n) {
            for fresh in [false, true] {
                let snap = full_snapshot(build_db(ws, &r, &perm, fresh), ws, ROOT);
                dbs.fetch_add(1, Ordering::Relaxed);
                states.lock().unwrap().insert(hash_lines(&snap));
                match &reference {
                    None => reference = Some((snap, perm.clone(), fresh)),
                    Some((rs, rperm, rfresh)) => {
                        if *rs != snap {
                            let diff: Vec<&String> = snap.iter().filter(|l| !rs.contains(l)).collect();
                            let kinds: std::collections::BTreeSet<String> = diff.iter().map(|l| l.split(' ').next().unwrap_or("").to_string()).collect();
                            let cause = if rperm == &perm { "analysis path (analyze_file vs scan path)" } else { "analysis order" };
                            let fp = format!("answers depend on {}: {:?}", cause, kinds);
                            if !rep.count_if_seen(&fp) {
                                rep.violation(
                                    &fp,
                                    &format!("workspace {:?}: order {:?} (scan path {}) vs order {:?} (scan path {}): differing answers {:?}", ws.files.iter().map(|f| &f.rel).collect::<Vec<_>>(), rperm, rfresh, perm, fresh, diff),
                                    || json!({"case": {"ws": ws, "order": perm, "fresh": fresh}, "reference_order": rperm, "differing": diff}),
                                );
                            }
                        }
                    }
                }
            }
            orders_total.fetch_add(1, Ordering::Relaxed);
        }
        // hash-seed sweep on the canonical order (a sweep, not an enumeration)
        let canon: Vec<usize> = (0..n).collect();
        if let Some((rs, _, _)) = &reference {
            for &seed in &seeds {
                let snap = crate::seed::on_fresh_thread_seeded(seed, || full_snapshot(build_db(ws, &r, &canon, false), ws, ROOT));
                dbs.fetch_add(1, Ordering::Relaxed);
                if &snap != rs {
                    let diff: Vec<&String> = snap.iter().filter(|l| !rs.contains(l)).collect();
                    let kinds: std::collections::BTreeSet<String> = diff.iter().map(|l| l.split(' ').next().unwrap_or("").to_string()).collect();
                    let fp = format!("answers depend on the process hash seed: {:?}", kinds);
                    if !rep.count_if_seen(&fp) {
                        rep.violation(&fp, &format!("workspace {:?} seed {}: {:?}", ws.files.iter().map(|f| &f.rel).collect::<Vec<_>>(), seed, diff), || json!({"case": {"ws": ws, "order": canon, "fresh": false}, "seed": seed}));
                    }
                }
            }
        }
        if i % 211 == 3 {
            rep.sample(json!({"files": ws.files.iter().map(|f| f.rel.clone()).collect::<Vec<_>>(), "orders": permutations(n).len()}));
        }
    });
    // import-bridged cycles: same-named fixtures in two conftest.py files (same line numbers) joined
    // into one dependency structure by a parent conftest star-importing a module of the sub-directory;
    // dotted module names need real directories, so these run on materialised trees (all orders)
    let mut bridged = 0u64;
    {
        let mut fam: Vec<Ws> = Vec::new();
        for dx_root in [vec![], vec!["y"], vec!["x"]] {
            for dx_sub in [vec![], vec!["x"], vec!["y"]] {
                for dy in [vec![], vec!["x"]] {
                    fam.push(Ws { files: vec![
                        FileSpec::new("conftest.py", vec![Item::fixture("x", &dx_root), Item::StarImport { module: "s.extra".into() }]),
                        FileSpec::new("s/conftest.py", vec![Item::fixture("x", &dx_sub)]),
                        FileSpec::new("s/extra.py", vec![Item::fixture("y", &dy)]),
                        FileSpec::new("s/test_it.py", vec![Item::test("it", &["x", "y"])]),
                    ] });
                }
            }
        }
        par_batches(&fam, 2, |_i, ws| {
            let r = ws.render();
            let sc = Scratch::new("c08b");
            materialize(ws, &r, sc.path());
            let root = sc.path().to_string_lossy().to_string();
            let mut reference: Option<(Vec<String>, Vec<usize>, bool)> = None;
            for perm in permutations(ws.files.len()) {
                for fresh in [false, true] {
                    let snap = full_snapshot(build_db_at(ws, &r, &perm, fresh, &root), ws, &root);
                    dbs.fetch_add(1, Ordering::Relaxed);
                    match &reference {
                        None => reference = Some((snap, perm.clone(), fresh)),
                        Some((rs, rperm, rfresh)) => {
                            if *rs != snap {
                                let diff: Vec<&String> = snap.iter().filter(|l| !rs.contains(l)).collect();
                                let kinds: std::collections::BTreeSet<String> = diff.iter().map(|l| l.split(' ').next().unwrap_or("").to_string()).collect();
                                let fp = format!("answers depend on analysis order (cycle bridged by an import across directories): {:?}", kinds);
                                if !rep.count_if_seen(&fp) {
                                    rep.violation(&fp, &format!("workspace {:?}: order {:?} (scan path {}) vs order {:?} (scan path {}): differing answers {:?}", ws.files.iter().map(|f| (&f.rel, &f.items)).collect::<Vec<_>>(), rperm, rfresh, perm, fresh, diff),
                                        || json!({"case": {"ws": ws, "order": perm, "fresh": fresh}, "on_disk": true, "reference_order": rperm, "differing": diff}));
                                }
                            }
                        }
                    }
                }
                orders_total.fetch_add(1, Ordering::Relaxed);
            }
        });
        bridged += fam.len() as u64;
    }
    // conformance: the real parallel scan (rayon) on materialised workspaces, several pool sizes
    let mut conf = 0u64;
    let subset: Vec<&Ws> = wss.iter().skip(n_extra).step_by((wss.len() / if thorough { 150 } else { 40 }).max(1)).collect();
    for ws in subset {
        let r = ws.render();
        let sc = Scratch::new("c08");
        materialize(ws, &r, sc.path());
        let root = sc.path().to_string_lossy().to_string();
        let mut first: Option<Vec<String>> = None;
        for threads in [1usize, 2, 16] {
            for _rep in 0..2 {
                let pool = rayon::ThreadPoolBuilder::new().num_threads(threads).build().expect("pool");
                let snap = pool.install(|| {
                    let db = FixtureDatabase::new();
                    db.scan_workspace(sc.path());
                    full_snapshot(db, ws, &root)
                });
                conf += 1;
                match &first {
                    None => first = Some(snap),
                    Some(f) => {
                        if *f != snap {
                            let diff: Vec<&String> = snap.iter().filter(|l| !f.contains(l)).collect();
                            rep.violation("real scan_workspace answers differ between runs / worker counts", &format!("{} worker threads: {:?}", threads, diff), || json!({"ws": ws, "threads": threads}));
                        }
                    }
                }
            }
        }
        // and it must be one of the sequential orders' answers (same tree, same paths)
        let seq = full_snapshot(build_db_at(ws, &r, &(0..ws.files.len()).collect::<Vec<_>>(), true, &root), ws, &root);
        let _ = seq; // informational: the scan additionally analyses imported modules (phase 4)
    }
    let d = dbs.load(Ordering::Relaxed);
    rep.set("evaluations", d);
    rep.set("workspaces", json!({"import_bridged_cycle_workspaces_on_disk": bridged, "extra_collision_workspaces": n_extra, "layouts_with_collisions": n_lay, "chains": n_chain, "max_files_all_orders": max_files_all_orders}));
    rep.set("orders_explored", orders_total.load(Ordering::Relaxed));
    rep.set("states", states.lock().unwrap().len() as u64);
    rep.set("transitions", d);
    rep.set("distinct_nontrivial", (n_extra + n_lay + n_chain) as u64);
    rep.set("traces_validated_against_impl", conf);
    rep.set("hash_seeds_swept", json!(seeds));
    rep.set("exhaustive", true);
    rep.set("rule", "workspaces with colliding fixture names (hand-written plugin/third-party/import duplicates, every C01 layout with ≥2 defining files, every C02 chain with ≥2 links, file count within the bound; 18 on-disk workspaces in which same-named fixtures of two conftest.py files are joined by a star import across directories); for each, EVERY permutation of the per-file analysis order through analyze_file and through the scan's no-cleanup path; all answer snapshots (go-to-definition at every usage, references of every definition, available fixtures, cycles, scope mismatches, unused list, workspace/document symbols) must be identical; plus a labelled sweep of hash seeds and, as conformance (traces_validated), the real rayon scan_workspace on materialised trees with pools of 1, 2 and 16 threads, twice each; states = distinct answer snapshots (must equal the number of workspaces when the property holds)");
    rep.assume("thread schedules of the parallel scan affect the index only through the order of per-file analyses (C09 shows interleavings are index-equivalent to a sequential order)");
}
