//! C05 — all features agree on which definition a name denotes (model-free cross-feature check).

use crate::checks::wscheck::{for_each_db, Counters};
use crate::db::{def_key, rel};
use crate::lsp::{path_of, whole_doc_range, Lsp};
use crate::report::{is_thorough, Report};
use crate::ws::ROOT;
use pytest_language_server::providers::Backend;
use pytest_language_server::{FixtureDatabase, FixtureDefinition};
use serde_json::{json, Value};
use std::path::PathBuf;
use std::sync::atomic::Ordering;
use std::sync::Arc;
use tower_lsp_server::ls_types::*;

pub fn check_agreement(rep: &Report, cnt: &Counters, case: &Value, root: &str, db: &Arc<FixtureDatabase>) {
    let lsp = Lsp::new(db.clone(), None);
    let mut files: Vec<PathBuf> = db.usages.iter().map(|e| e.key().clone()).collect();
    files.sort();
    for f in &files {
        let mut usages: Vec<(String, usize, usize, usize)> = db
            .usages
            .get(f)
            .map(|u| u.iter().map(|u| (u.name.clone(), u.line, u.start_char, u.end_char)).collect())
            .unwrap_or_default();
        usages.sort();
        usages.dedup();
        let dup_in_file = |d: &FixtureDefinition| -> bool {
            db.definitions
                .get(&d.name)
                .map(|v| v.iter().filter(|x| x.file_path == d.file_path).count() > 1)
                .unwrap_or(false)
        };
        let avail = db.get_available_fixtures(f);
        {
            let mut names: Vec<&String> = avail.iter().map(|d| &d.name).collect();
            names.sort();
            let n = names.len();
            names.dedup();
            if names.len() != n {
                rep.violation("available-fixtures has a name twice", &format!("{}: {:?}", rel(f, root), avail.iter().map(|d| def_key(d, root)).collect::<Vec<_>>()), || json!({"case": case}));
            }
        }
        let hints: Vec<InlayHint> = match lsp.inlay_hint(f, whole_doc_range()) {
            Ok(h) => h.unwrap_or_default(),
            Err(p) => {
                rep.violation("inlay-panic", &p, || json!({"case": case}));
                vec![]
            }
        };
        let text: Option<Arc<String>> = db.file_cache.get(f).map(|c| c.clone());
        // a line where completion offers every available fixture (usefixtures / pytestmark context)
        let usefix_line: Option<u32> = text.as_ref().and_then(|t| {
            t.lines().position(|l| l.contains("usefixtures(")).map(|i| i as u32)
        });
        let completion: Option<Vec<CompletionItem>> = usefix_line.and_then(|l| match lsp.completion(f, l, 0, None) {
            Ok(c) => c,
            Err(p) => {
                rep.violation("completion-panic", &p, || json!({"case": case}));
                None
            }
        });
        for (name, line, start, end) in &usages {
            let l0 = (*line - 1) as u32;
            let c0 = *start as u32;
            cnt.queries.fetch_add(6, Ordering::Relaxed);
            let d = db.find_fixture_definition(f, l0, c0);
            // is this usage a fixture's own same-named parameter?
            let self_param = db
                .definitions
                .get(name)
                .map(|v| v.iter().any(|x| &x.file_path == f && x.line <= *line && *line <= x.end_line))
                .unwrap_or(false);
            let q = |kind: &str| json!({"kind": kind, "file": rel(f, root), "line": line, "col": start});
            let ctx = format!(
                "self_param={} dup_in_file={}",
                self_param,
                d.as_ref().map(&dup_in_file).unwrap_or(false)
            );
            let dk = d.as_ref().map(|d| def_key(d, root));
            // hover
            match lsp.hover(f, l0, c0) {
                Ok(h) => {
                    let want = d.as_ref().map(|d| Backend::format_fixture_documentation(d, None));
                    if h != want {
                        rep.violation(&format!("hover differs from go-to-definition [{}]", ctx),
                            &format!("`{}` at {}:{}:{}: definition {:?}; hover {:?}", name, rel(f, root), line, start, dk, h),
                            || json!({"case": case, "query": q("hover"), "expected": want, "observed": h}));
                    }
                }
                Err(p) => { rep.violation("hover-panic", &p, || json!({"case": case, "query": q("hover")})); }
            }
            // implementation
            match lsp.goto_implementation(f, l0, c0) {
                Ok(loc) => {
                    let got = loc.map(|l| (path_of(&l.uri), l.range.start.line as usize + 1));
                    let want = d.as_ref().map(|d| (d.file_path.clone(), d.yield_line.unwrap_or(d.line)));
                    if got != want {
                        rep.violation(&format!("implementation differs from go-to-definition [{}]", ctx),
                            &format!("`{}` at {}:{}:{}: definition {:?}; implementation {:?}", name, rel(f, root), line, start, dk, got),
                            || json!({"case": case, "query": q("implementation")}));
                    }
                }
                Err(p) => { rep.violation("implementation-panic", &p, || json!({"case": case})); }
            }
            // prepareCallHierarchy (+ outgoing calls of D)
            match lsp.prepare_call_hierarchy(f, l0, c0) {
                Ok(items) => {
                    let got = items.as_ref().map(|v| v.iter().map(|i| (i.name.clone(), path_of(&i.uri), i.selection_range.start.line as usize + 1, i.selection_range.start.character as usize)).collect::<Vec<_>>());
                    let want = d.as_ref().map(|d| vec![(d.name.clone(), d.file_path.clone(), d.line, d.start_char)]);
                    if got != want {
                        rep.violation(&format!("prepareCallHierarchy differs from go-to-definition [{}]", ctx),
                            &format!("`{}` at {}:{}:{}: definition {:?}; item {:?}", name, rel(f, root), line, start, dk, got),
                            || json!({"case": case, "query": q("prepare")}));
                    } else if let (Some(d), Some(items)) = (&d, items) {
                        // outgoing calls of D: each dependency's target == go-to-definition from D's parameter
                        match lsp.outgoing_calls(items[0].clone()) {
                            Ok(out) => {
                                let out = out.unwrap_or_default();
                                let mut got: Vec<(String, String)> = out.iter().map(|c| (c.to.name.clone(), format!("{}:{}", rel(&path_of(&c.to.uri), root), c.to.selection_range.start.line + 1))).collect();
                                got.sort();
                                let mut want: Vec<(String, String)> = Vec::new();
                                for dep in &d.dependencies {
                                    let pu = db.usages.get(&d.file_path).and_then(|us| us.iter().find(|u| u.line >= d.line && u.line <= d.end_line && &u.name == dep).map(|u| (u.line, u.start_char)));
                                    if let Some((pl, pc)) = pu {
                                        if let Some(g) = db.find_fixture_definition(&d.file_path, (pl - 1) as u32, pc as u32) {
                                            want.push((dep.clone(), format!("{}:{}", rel(&g.file_path, root), g.line)));
                                        }
                                    }
                                }
                                want.sort();
                                if got != want {
                                    let selfdep = d.dependencies.iter().any(|x| x == &d.name);
                                    rep.violation(&format!("outgoing calls differ from go-to-definition of the parameters [self_dep={} dup_in_file={}]", selfdep, dup_in_file(d)),
                                        &format!("fixture {}: outgoing {:?}, parameters resolve to {:?}", def_key(d, root), got, want),
                                        || json!({"case": case, "query": {"kind": "prepare", "file": rel(&d.file_path, root), "line": d.line, "col": d.start_char}, "expected": want, "observed": got}));
                                }
                            }
                            Err(p) => { rep.violation("outgoing-panic", &p, || json!({"case": case})); }
                        }
                    }
                }
                Err(p) => { rep.violation("prepare-panic", &p, || json!({"case": case})); }
            }
            // inlay hint at this usage
            let h: Vec<&InlayHint> = hints.iter().filter(|h| h.position.line == l0 && h.position.character as usize == *end).collect();
            let is_param = text.as_ref().and_then(|t| t.lines().nth(*line - 1).map(|l| l.trim_start().starts_with("def ") || l.trim_start().starts_with("async def ") || l.trim() == format!("{},", name))).unwrap_or(false);
            let want_label = d.as_ref().and_then(|d| d.return_type.as_ref()).map(|rt| format!(": {}", rt));
            for hh in &h {
                let lab = match &hh.label { InlayHintLabel::String(s) => s.clone(), _ => String::new() };
                if Some(&lab) != want_label.as_ref() {
                    rep.violation(&format!("inlay hint differs from go-to-definition [{}]", ctx),
                        &format!("`{}` at {}:{}:{}: definition {:?} returns {:?}; hint {:?}", name, rel(f, root), line, start, dk, want_label, lab),
                        || json!({"case": case, "query": q("inlay")}));
                }
            }
            if is_param && h.is_empty() && want_label.is_some() {
                rep.violation(&format!("inlay hint missing [{}]", ctx),
                    &format!("`{}` at {}:{}:{}: definition {:?} returns {:?}; no hint", name, rel(f, root), line, start, dk, want_label),
                    || json!({"case": case, "query": q("inlay")}));
            }
            // per-file view and completion entry (usages that are not a fixture's own parameter:
            // the per-file view has one entry per name, the file-level meaning of the name)
            if !self_param {
                let a: Vec<&FixtureDefinition> = avail.iter().filter(|x| &x.name == name).collect();
                let ak: Vec<String> = a.iter().map(|x| def_key(x, root)).collect();
                let want: Vec<String> = dk.iter().cloned().collect();
                if ak != want {
                    rep.violation(&format!("available-fixtures entry differs from go-to-definition [{}]", ctx),
                        &format!("`{}` in {}: go-to-definition {:?}; per-file view {:?}", name, rel(f, root), dk, ak),
                        || json!({"case": case, "query": q("goto"), "expected": want, "observed": ak}));
                }
                if let (Some(items), Some(d)) = (&completion, &d) {
                    let it: Vec<&CompletionItem> = items.iter().filter(|i| &i.label == name).collect();
                    let docs: Vec<String> = it.iter().filter_map(|i| match &i.documentation { Some(Documentation::MarkupContent(m)) => Some(m.value.clone()), _ => None }).collect();
                    let want = vec![Backend::format_fixture_documentation(d, None)];
                    if docs != want {
                        rep.violation(&format!("completion entry differs from go-to-definition [{}]", ctx),
                            &format!("`{}` in {}: go-to-definition {:?}; completion docs {:?}", name, rel(f, root), dk, docs),
                            || json!({"case": case, "query": q("completion")}));
                    }
                }
            }
        }
    }
}

pub fn run(rep: &'static Report) {
    let thorough = is_thorough();
    let cnt = Counters::new();
    let desc = for_each_db(
        true,
        if thorough { 3 } else { 2 },
        if thorough { 4 } else { 3 },
        if thorough { 3 } else { 2 },
        if thorough { 4 } else { 3 },
        &cnt,
        &|case, _ws, _r, db| check_agreement(rep, &cnt, case, ROOT, db),
    );
    for smp in cnt.samples.lock().unwrap().iter().take(3) {
        rep.sample(smp.clone());
    }
    let q = cnt.queries.load(Ordering::Relaxed);
    rep.set("evaluations", q);
    rep.set("enumeration", desc);
    rep.set("databases_built", cnt.dbs.load(Ordering::Relaxed));
    rep.set("states", cnt.states.lock().unwrap().len() as u64);
    rep.set("transitions", cnt.analyses.load(Ordering::Relaxed) + q);
    rep.set("distinct_nontrivial", cnt.nontrivial.load(Ordering::Relaxed));
    rep.set("traces_validated_against_impl", q);
    rep.set("exhaustive", true);
    rep.set("rule", "every database of the C01 layout enumeration (definitions carry distinct return types, docstrings and yield lines) and the C02 chain enumeration, all registration orders within the definer bound; at every recorded usage position, with D = go-to-definition: hover text, implementation target, prepareCallHierarchy item, outgoing calls of D vs go-to-definition from D's parameters, inlay hint label, completion entry (asked in a usefixtures context of the same file) and the per-file available-fixtures entry must all denote D; every comparison is between two real in-process handler/library calls (traces_validated)");
    rep.assume("hover/completion documentation is compared through Backend::format_fixture_documentation(D) with no workspace root");
}
