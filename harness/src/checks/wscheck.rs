//! Shared oracle for workspace-based checks: every usage site × column against PytestLookup,
//! plus the generic replay of a recorded (workspace, order, query) case.

use crate::db::{build_db, rel};
use crate::layouts::classify;
use crate::lsp::Lsp;
use crate::report::Report;
use crate::ws::{DefId, Rendered, Ws, ROOT};
use serde_json::{json, Value};
use std::collections::HashSet;
use std::sync::atomic::{AtomicU64, Ordering};
use std::sync::{Arc, Mutex};

pub fn def_loc(r: &Rendered, ws: &Ws, d: DefId) -> (String, usize) {
    let s = r.defs.iter().find(|x| x.id == d).expect("def site");
    (ws.files[d.file].rel.clone(), s.line)
}

pub fn find_def(r: &Rendered, ws: &Ws, relp: &str, line: usize) -> Option<DefId> {
    r.defs
        .iter()
        .find(|x| ws.files[x.id.file].rel == relp && x.line == line)
        .map(|x| x.id)
}

pub fn case_json(ws: &Ws, order: &[usize], fresh: bool) -> Value {
    json!({"ws": ws, "order": order, "fresh": fresh})
}
pub struct Counters {
    pub queries: AtomicU64,
    pub dbs: AtomicU64,
    pub analyses: AtomicU64,
    pub nontrivial: AtomicU64,
    pub skipped: AtomicU64,
    pub handler_calls: AtomicU64,
    pub states: Mutex<HashSet<u64>>,
    pub samples: Mutex<Vec<Value>>,
}
impl Counters {
    pub fn new() -> Self {
        Counters {
            queries: AtomicU64::new(0),
            dbs: AtomicU64::new(0),
            analyses: AtomicU64::new(0),
            nontrivial: AtomicU64::new(0),
            skipped: AtomicU64::new(0),
            handler_calls: AtomicU64::new(0),
            states: Mutex::new(HashSet::new()),
            samples: Mutex::new(Vec::new()),
        }
    }
}

/// Check every usage site × column of one database.  Returns number of queries.
pub fn check_usages(
    rep: &Report,
    cnt: &Counters,
    case: &Value,
    ws: &Ws,
    r: &Rendered,
    db: &Arc<pytest_language_server::FixtureDatabase>,
) {
    let lsp = Lsp::new(db.clone(), None);
    for (ui, u) in r.usages.iter().enumerate() {
        let expected = ws.expected_for(u);
        let exp_loc = expected.map(|d| def_loc(r, ws, d));
        let path = ws.path(u.file);
        // first registered definition of the name (after the self-exclusion the code applies)
        for col in (u.start - 1)..=(u.end) {
            let inside = col >= u.start && col < u.end;
            let got = db.find_fixture_definition(&path, (u.line - 1) as u32, col as u32);
            cnt.queries.fetch_add(1, Ordering::Relaxed);
            let got_loc = got.as_ref().map(|d| (rel(&d.file_path, ROOT), d.line));
            let ok = if inside {
                got_loc == exp_loc
            } else {
                got_loc.is_none()
            };
            if !ok {
                let e_cls = match (inside, expected) {
                    (false, _) => "outside-token".to_string(),
                    (true, None) => "none".to_string(),
                    (true, Some(d)) => {
                        let c = classify(ws, u.file, d);
                        // relative level is irrelevant for the import branch's root cause
                        if c.starts_with("conftest-import@") {
                            "conftest-import".to_string()
                        } else {
                            c
                        }
                    }
                };
                let g_id = got_loc.as_ref().and_then(|(f, l)| find_def(r, ws, f, *l));
                let g_cls = match (&got_loc, g_id) {
                    (None, _) => "none".to_string(),
                    (Some(_), Some(d)) => {
                        if Some(d)
                            == (if u.kind == crate::ws::UsageKind::FixtureParam {
                                Some(DefId {
                                    file: u.file,
                                    item: u.item,
                                })
                            } else {
                                None
                            })
                            && ws.name_of(d) == u.name
                        {
                            "self".to_string()
                        } else {
                            classify(ws, u.file, d)
                        }
                    }
                    (Some(_), None) => "unknown-location".to_string(),
                };
                // is the wrong answer the first-registered definition of the name?
                let first_reg = db.definitions.get(&u.name).and_then(|v| {
                    v.iter()
                        .find(|d| {
                            // mirror the self-exclusion: a fixture's own parameter skips itself
                            !(u.kind == crate::ws::UsageKind::FixtureParam
                                && rel(&d.file_path, ROOT) == ws.files[u.file].rel
                                && d.line == u.line
                                && d.name == u.name)
                        })
                        .map(|d| (rel(&d.file_path, ROOT), d.line))
                });
                let is_first = got_loc.is_some() && got_loc == first_reg;
                let fp = format!(
                    "expected={} got={} got_is_first_registered={}",
                    e_cls, g_cls, is_first
                );
                let what = format!(
                    "go-to-definition on `{}` ({:?}) in {} line {} col {}: expected {:?}, got {:?}",
                    u.name, u.kind, ws.files[u.file].rel, u.line, col, exp_loc, got_loc
                );
                rep.violation(&fp, &what, || {
                    json!({"case": case, "query": {"kind": "goto", "file": ws.files[u.file].rel, "line": u.line, "col": col},
                           "usage_index": ui, "expected": exp_loc, "observed": got_loc})
                });
            }
            // the in-process handler must agree with the library answer (conversion 0/1-based, URI)
            if col == u.start {
                cnt.handler_calls.fetch_add(1, Ordering::Relaxed);
                match lsp.goto_definition(&path, (u.line - 1) as u32, col as u32) {
                    Ok(loc) => {
                        let h = loc.map(|l| {
                            (
                                rel(&crate::lsp::path_of(&l.uri), ROOT),
                                l.range.start.line as usize + 1,
                                l.range.start.character,
                            )
                        });
                        let want = got_loc.clone().map(|(f, l)| (f, l, 0u32));
                        if h != want {
                            rep.violation(
                                "handler-disagrees-with-library",
                                &format!(
                                    "textDocument/definition handler returned {:?}, library {:?}",
                                    h, want
                                ),
                                || json!({"case": case, "query": {"kind": "goto-handler", "file": ws.files[u.file].rel, "line": u.line, "col": col}}),
                            );
                        }
                    }
                    Err(p) => {
                        rep.violation(
                            "handler-panic",
                            &format!("definition handler panicked: {}", p),
                            || json!({"case": case, "query": {"kind": "goto-handler", "file": ws.files[u.file].rel, "line": u.line, "col": col}}),
                        );
                    }
                }
            }
        }
    }
}


/// Generic replay: rebuild the database from the recorded workspace and order, re-ask the query.
pub fn replay(v: &Value) {
    let case = &v["case"];
    let ws: Ws = serde_json::from_value(case["ws"].clone()).expect("ws");
    let order: Vec<usize> = serde_json::from_value(case["order"].clone()).expect("order");
    let fresh = case["fresh"].as_bool().unwrap_or(false);
    let r = ws.render();
    for (i, f) in ws.files.iter().enumerate() {
        println!(
            "--- {} (analysis position {:?}{})\n{}",
            f.rel,
            order.iter().position(|&x| x == i),
            if f.plugin { ", plugin file" } else { "" },
            r.texts[i]
        );
    }
    let db = Arc::new(build_db(&ws, &r, &order, fresh));
    let q = &v["query"];
    let file = q["file"].as_str().unwrap_or("");
    let line = q["line"].as_u64().unwrap_or(1) as u32;
    let col = q["col"].as_u64().unwrap_or(0) as u32;
    let path = std::path::PathBuf::from(format!("{}/{}", ROOT, file));
    let lsp = Lsp::new(db.clone(), None);
    println!("query: {} at {} line {} col {}", q["kind"], file, line, col);
    let got = db.find_fixture_definition(&path, line - 1, col);
    println!(
        "  find_fixture_definition -> {:?}",
        got.map(|d| (rel(&d.file_path, ROOT), d.line))
    );
    println!(
        "  references handler -> {:?}",
        lsp.references(&path, line - 1, col).map(|o| o.map(|v| v
            .iter()
            .map(|l| (rel(&crate::lsp::path_of(&l.uri), ROOT), l.range.start.line + 1, l.range.start.character, l.range.end.character))
            .collect::<Vec<_>>()))
    );
    println!(
        "  prepareCallHierarchy -> {:?}",
        lsp.prepare_call_hierarchy(&path, line - 1, col).map(|o| o.map(|v| v
            .iter()
            .map(|i| (i.name.clone(), rel(&crate::lsp::path_of(&i.uri), ROOT), i.selection_range.start.line + 1))
            .collect::<Vec<_>>()))
    );
    println!("recorded expected: {}", v["expected"]);
    println!("recorded observed: {}", v["observed"]);
}

/// Enumerate the C01 layouts and C02 chains with all registration orders of the defining files
/// (bounded as stated in the returned description) and hand every database to `f`.
pub fn for_each_db(
    rich: bool,
    max_depth: usize,
    max_definers: usize,
    chain_depth: usize,
    chain_len: usize,
    cnt: &Counters,
    f: &(dyn Fn(&Value, &Ws, &Rendered, &Arc<pytest_language_server::FixtureDatabase>) + Sync),
) -> Value {
    use crate::db::{hash_lines, index_snapshot, permutations, IndexParts};
    let mut wss: Vec<Ws> = Vec::new();
    for lay in crate::layouts::Layout::enumerate(max_depth, rich) {
        wss.push(lay.to_ws());
    }
    let n_layouts = wss.len();
    for ch in crate::checks::c02::Chain::enumerate(chain_depth, chain_len) {
        let ws = ch.to_ws();
        if rich {
            // every definition carries its own return type (features that print a type must all
            // print the one of the definition go-to-definition selects) …
            let mut all = ws.clone();
            // … and once more with a type only on the definitions that do not request themselves
            let mut some = ws.clone();
            for (w, only_plain) in [(&mut all, false), (&mut some, true)] {
                for (fi, f) in w.files.iter_mut().enumerate() {
                    for (ii, it) in f.items.iter_mut().enumerate() {
                        if let crate::ws::Item::Fixture { ret, deps, name, .. } = it {
                            if !only_plain || (name == "fx" && !deps.iter().any(|d| d == "fx")) {
                                *ret = Some(format!("T{}_{}", fi, ii));
                            }
                        }
                    }
                }
            }
            wss.push(all);
            wss.push(some);
        } else {
            wss.push(ws);
        }
    }
    let n_chains = wss.len() - n_layouts;
    crate::report::par_batches(&wss, 32, |i, ws| {
        let r = ws.render();
        if i % 1201 == 7 {
            cnt.samples.lock().unwrap().push(json!({"workspace_files": ws.files.iter().map(|f| json!({"path": f.rel, "plugin": f.plugin, "text": r.texts[ws.file_index(&f.rel).unwrap()]})).collect::<Vec<_>>()}));
        }
        let (defs, others) = {
            let mut d = Vec::new();
            let mut o = Vec::new();
            for (i, f) in ws.files.iter().enumerate() {
                if f.defines("fx") {
                    d.push(i)
                } else {
                    o.push(i)
                }
            }
            (d, o)
        };
        if defs.len() > max_definers {
            cnt.skipped.fetch_add(1, Ordering::Relaxed);
            return;
        }
        if defs.len() >= 2 {
            cnt.nontrivial.fetch_add(1, Ordering::Relaxed);
        }
        for perm in permutations(defs.len()) {
            let mut order = others.clone();
            order.extend(perm.iter().map(|&k| defs[k]));
            let db = Arc::new(build_db(ws, &r, &order, false));
            cnt.dbs.fetch_add(1, Ordering::Relaxed);
            cnt.analyses.fetch_add(order.len() as u64, Ordering::Relaxed);
            cnt.states
                .lock()
                .unwrap()
                .insert(hash_lines(&index_snapshot(&db, ROOT, IndexParts::CORE)));
            f(&case_json(ws, &order, false), ws, &r, &db);
        }
    });
    json!({"layouts": n_layouts, "layout_max_depth": max_depth, "max_definers_all_orders": max_definers,
           "chains": n_chains, "chain_depth": chain_depth, "chain_max_len": chain_len, "rich": rich})
}
