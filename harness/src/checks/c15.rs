//! C15 — reported positions identify exactly the right tokens.
//! Layout-feature program grammar (oracle/gen_c15.py) × CPython token positions (UTF-16) vs every
//! range in every response of the in-process handlers; plus structural LSP rules.

use crate::e4::{generate, report_findings, Finding};
use crate::lsp::{whole_doc_range, Lsp};
use crate::report::{is_thorough, par_batches, Report};
use pytest_language_server::FixtureDatabase;
use serde_json::{json, Value};
use std::path::PathBuf;
use std::sync::{Arc, Mutex};
use tower_lsp_server::ls_types::{Position, Range};

type Span = (u64, u64, u64); // 0-based line, start col, end col

fn cls(obs: Span, want16: Span, want_b: Span) -> &'static str {
    if obs == want_b && want_b != want16 {
        "byte-offsets-instead-of-utf16"
    } else if obs.0 != want16.0 {
        "wrong-line"
    } else if (obs.1 as i64 - want16.1 as i64).abs() <= 3 && (obs.2 as i64 - want16.2 as i64).abs() <= 3 {
        "off-by-quote-or-prefix"
    } else {
        "wrong-token"
    }
}

fn span_of(r: &Range) -> Span {
    (r.start.line as u64, r.start.character as u64, r.end.character as u64)
}

pub fn compare_case(ci: usize, case: &Value, out: &Mutex<Vec<Finding>>) {
    let src = case["source"].as_str().unwrap_or("");
    let exp = &case["expected"];
    let path = PathBuf::from("/nonexistent/ws/test_mod.py");
    let db = Arc::new(FixtureDatabase::new());
    let mut push = |what: String, detail: String| out.lock().unwrap().push(Finding { case_index: ci, what, detail });
    if std::panic::catch_unwind(std::panic::AssertUnwindSafe(|| db.analyze_file(path.clone(), src))).is_err() {
        push("analysis panicked".into(), String::new());
        return;
    }
    if !db.imports.contains_key(&path) {
        push("PARSER-DISAGREEMENT".into(), String::new());
        return;
    }
    let lsp = Lsp::new(db.clone(), None);
    let line_len: Vec<u64> = exp["line_lengths_utf16"].as_array().unwrap().iter().map(|x| x.as_u64().unwrap()).collect();
    let nlines = line_len.len() as u64;
    // structural rules for any range we see
    let mut structural = |kind: &str, r: &Range, push: &mut dyn FnMut(String, String)| {
        if (r.start.line, r.start.character) > (r.end.line, r.end.character) {
            push(format!("{}: start after end", kind), format!("{:?}", r));
        }
        for p in [r.start, r.end] {
            if p.line as u64 >= nlines || p.character as u64 > line_len[p.line as usize] {
                push(format!("{}: position outside the document", kind), format!("{:?} (document has {} lines)", p, nlines));
                break;
            }
        }
    };
    // oracle records
    let fx = exp["fixtures"].as_array().unwrap().iter().find(|f| f["name"] == "fx_name").cloned();
    let Some(fx) = fx else {
        return;
    };
    let g = |v: &Value, k: &str| v[k].as_u64().unwrap_or(u64::MAX);
    let name16: Span = (g(&fx, "name_line") - 1, g(&fx, "name_start"), g(&fx, "name_end"));
    let name_b: Span = (g(&fx, "name_line") - 1, g(&fx, "name_start_b"), g(&fx, "name_end_b"));
    let def_line0 = g(&fx, "line") - 1;
    let usages: Vec<&Value> = exp["usages"].as_array().unwrap().iter().filter(|u| u["name"] == "fx_name" && u.get("start").is_some()).collect();
    let unspanned = exp["usages"].as_array().unwrap().iter().filter(|u| u["name"] == "fx_name" && u.get("start").is_none()).count();
    let want_usage16: Vec<Span> = usages.iter().map(|u| (g(u, "line") - 1, g(u, "start"), g(u, "end"))).collect();
    let want_usage_b: Vec<Span> = usages.iter().map(|u| (g(u, "line") - 1, g(u, "start_b"), g(u, "end_b"))).collect();
    let mut check_span = |kind: &str, obs: Span, w16: Span, wb: Span, push: &mut dyn FnMut(String, String)| {
        if obs != w16 {
            let c = cls(obs, w16, wb);
            if c == "byte-offsets-instead-of-utf16" {
                // one systemic root cause whatever the response: columns are byte offsets
                push("columns are byte offsets instead of UTF-16 code units".into(), format!("{} reported {:?}, token is at {:?} (UTF-16; bytes {:?})", kind, obs, w16, wb));
            } else {
                push(format!("{}: {}", kind, c), format!("reported {:?}, token is at {:?} (UTF-16; bytes {:?})", obs, w16, wb));
            }
        }
    };
    // ---- the index itself (every consumer reads these)
    let defs: Vec<pytest_language_server::FixtureDefinition> = db.definitions.get("fx_name").map(|v| v.clone()).unwrap_or_default();
    if defs.len() != 1 {
        push("definition of fx_name not recorded exactly once".into(), format!("{} definitions", defs.len()));
        return;
    }
    // ---- documentSymbol
    if let Ok(Some(sy)) = lsp.document_symbol(&path) {
        let mut seen = std::collections::BTreeSet::new();
        for s in &sy {
            structural("documentSymbol.range", &s.range, &mut push);
            structural("documentSymbol.selectionRange", &s.selection_range, &mut push);
            let (r, sel) = (&s.range, &s.selection_range);
            if (sel.start.line, sel.start.character) < (r.start.line, r.start.character) || (sel.end.line, sel.end.character) > (r.end.line, r.end.character) {
                push("documentSymbol: selectionRange outside range".into(), format!("{:?} vs {:?}", sel, r));
            }
            if !seen.insert((s.name.clone(), s.range.start.line)) {
                push("documentSymbol: duplicate entry".into(), s.name.clone());
            }
            if s.name == "fx_name" {
                check_span("documentSymbol.selectionRange", span_of(sel), name16, name_b, &mut push);
                if r.start.line as u64 != def_line0 || r.end.line as u64 + 1 != g(&fx, "end_line") {
                    push("documentSymbol.range: wrong lines".into(), format!("{:?}, definition spans lines {}..{}", r, def_line0 + 1, g(&fx, "end_line")));
                }
            }
        }
    } else {
        push("documentSymbol: no answer".into(), String::new());
    }
    // ---- workspace/symbol
    if let Ok(Some(sy)) = lsp.workspace_symbol("fx_name") {
        for s in sy.iter().filter(|s| s.name == "fx_name") {
            structural("workspaceSymbol.range", &s.location.range, &mut push);
            check_span("workspaceSymbol.range", span_of(&s.location.range), name16, name_b, &mut push);
        }
    }
    // ---- code lens
    if let Ok(Some(l)) = lsp.code_lens(&path) {
        for x in &l {
            structural("codeLens.range", &x.range, &mut push);
        }
        if !l.iter().any(|x| x.range.start.line as u64 == def_line0) {
            push("codeLens: no lens on the definition line".into(), format!("{:?}", l.iter().map(|x| x.range.start.line).collect::<Vec<_>>()));
        }
    }
    // ---- references from the definition name (definition point + usage ranges)
    let q = Position { line: name16.0 as u32, character: name16.1 as u32 };
    match lsp.references(&path, q.line, q.character) {
        Ok(Some(locs)) => {
            let mut seen = std::collections::BTreeSet::new();
            let mut got: Vec<Span> = Vec::new();
            for (i, l) in locs.iter().enumerate() {
                structural("references.range", &l.range, &mut push);
                if !seen.insert((l.range.start.line, l.range.start.character, l.range.end.character)) {
                    push("references: duplicate entry".into(), format!("{:?}", l.range));
                }
                if i == 0 {
                    if l.range.start.line as u64 != def_line0 {
                        push("references: declaration not on the definition line".into(), format!("{:?}", l.range));
                    }
                } else {
                    got.push(span_of(&l.range));
                }
            }
            got.sort();
            let mut w16 = want_usage16.clone();
            w16.sort();
            if got != w16 {
                // classify per usage
                for (k, w) in want_usage16.iter().enumerate() {
                    if !got.contains(w) {
                        let near = got.iter().find(|o| o.0 == w.0 && !want_usage16.contains(o)).cloned();
                        let kind = usages[k]["kind"].as_str().unwrap_or("");
                        match near {
                            Some(o) => check_span(&format!("references.range ({} usage)", kind), o, *w, want_usage_b[k], &mut push),
                            None => push(format!("references: {} usage not listed", kind), format!("usage at {:?} missing from {:?}", w, got)),
                        }
                    }
                }
                if got.len() != w16.len() + unspanned {
                    push("references: unexpected extra range".into(), format!("{:?} vs usages {:?}", got, w16));
                }
            }
        }
        Ok(None) => push("references: no answer on the definition name".into(), format!("position {:?}", q)),
        Err(p) => push("references: panic".into(), p),
    }
    // ---- go-to-definition / implementation from every usage
    for (k, w) in want_usage16.iter().enumerate() {
        let kind = usages[k]["kind"].as_str().unwrap_or("");
        match lsp.goto_definition(&path, w.0 as u32, w.1 as u32) {
            Ok(Some(l)) => {
                structural("definition.range", &l.range, &mut push);
                if l.range.start.line as u64 != def_line0 {
                    push("definition: target is not the def line".into(), format!("{:?}, def line {}", l.range, def_line0));
                }
            }
            Ok(None) => {
                if want_usage_b[k] != *w {
                    push("position lookup fails after non-ASCII text on the line (character index compared with byte columns)".into(), format!("definition at {:?} ({} usage)", w, kind));
                } else {
                    push(format!("definition: no answer on a {} usage token", kind), format!("position {:?}", w));
                }
            }
            Err(p) => push("definition: panic".into(), p),
        }
        if let Ok(Some(l)) = lsp.goto_implementation(&path, w.0 as u32, w.1 as u32) {
            let want = fx["yield_line"].as_u64().map(|y| y - 1).unwrap_or(def_line0);
            if l.range.start.line as u64 != want {
                push("implementation: target is not the first yield / def line".into(), format!("{:?}, expected line {}", l.range, want));
            }
        }
    }
    // ---- call hierarchy
    match lsp.prepare_call_hierarchy(&path, q.line, q.character) {
        Ok(Some(items)) if !items.is_empty() => {
            let it = &items[0];
            structural("callHierarchy.item.range", &it.range, &mut push);
            structural("callHierarchy.item.selectionRange", &it.selection_range, &mut push);
            check_span("callHierarchy.item.selectionRange", span_of(&it.selection_range), name16, name_b, &mut push);
            let (r, sel) = (&it.range, &it.selection_range);
            if (sel.start.line, sel.start.character) < (r.start.line, r.start.character) || (sel.end.line, sel.end.character) > (r.end.line, r.end.character) {
                push("callHierarchy.item: selectionRange outside range".into(), format!("{:?} vs {:?}", sel, r));
            }
            if let Ok(Some(inc)) = lsp.incoming_calls(it.clone()) {
                let mut got: Vec<Span> = inc.iter().flat_map(|c| c.from_ranges.iter().map(span_of)).collect();
                for c in &inc {
                    for r in &c.from_ranges {
                        structural("incomingCalls.fromRanges", r, &mut push);
                    }
                }
                got.sort();
                let mut w16: Vec<Span> = want_usage16.iter().filter(|w| w.0 != def_line0).cloned().collect();
                w16.sort();
                if got.len() == w16.len() + unspanned {
                    for w in w16.iter() {
                        if !got.contains(w) {
                            let k = want_usage16.iter().position(|x| x == w).unwrap();
                            let o = got.iter().find(|o| o.0 == w.0 && !w16.contains(o)).cloned().unwrap_or((u64::MAX, 0, 0));
                            check_span("incomingCalls.fromRanges", o, *w, want_usage_b[k], &mut push);
                        }
                    }
                } else {
                    push("incomingCalls: wrong number of calls".into(), format!("{:?} vs usages {:?}", got, w16));
                }
            }
        }
        Ok(_) => push("prepareCallHierarchy: no item on the definition name".into(), format!("position {:?}", q)),
        Err(p) => push("prepareCallHierarchy: panic".into(), p),
    }
    // outgoing calls of the dependent fixture: fromRanges = its fx_name parameter token
    if let Some(dep) = exp["fixtures"].as_array().unwrap().iter().find(|f| f["name"] != "fx_name") {
        let dl = g(dep, "name_line") - 1;
        let dparam = usages.iter().position(|u| g(u, "line") - 1 == dl && u["kind"] == "param");
        if let (Ok(Some(items)), Some(dp)) = (lsp.prepare_call_hierarchy(&path, dl as u32, g(dep, "name_start") as u32), dparam) {
            if let Some(it) = items.first() {
                if let Ok(Some(out)) = lsp.outgoing_calls(it.clone()) {
                    for c in &out {
                        structural("outgoingCalls.to.selectionRange", &c.to.selection_range, &mut push);
                        if c.to.name == "fx_name" {
                            check_span("outgoingCalls.to.selectionRange", span_of(&c.to.selection_range), name16, name_b, &mut push);
                            for r in &c.from_ranges {
                                structural("outgoingCalls.fromRanges", r, &mut push);
                                check_span("outgoingCalls.fromRanges", span_of(r), want_usage16[dp], want_usage_b[dp], &mut push);
                            }
                        }
                    }
                }
            }
        }
    }
    // ---- inlay hints: anchored at the end of unannotated parameter tokens
    if let Ok(Some(h)) = lsp.inlay_hint(&path, whole_doc_range()) {
        let mut seen = std::collections::BTreeSet::new();
        for x in &h {
            let p = (x.position.line as u64, x.position.character as u64);
            if !seen.insert(p) {
                push("inlayHint: duplicate entry".into(), format!("{:?}", p));
            }
            if p.0 >= nlines || p.1 > line_len[p.0 as usize] {
                push("inlayHint: position outside the document".into(), format!("{:?}", p));
            }
            let at_token_end = want_usage16.iter().any(|w| (w.0, w.2) == p);
            let on_unspanned_line = exp["usages"].as_array().unwrap().iter().any(|u| u.get("start").is_none() && g(u, "line") - 1 == p.0);
            if !at_token_end && !on_unspanned_line {
                let k = want_usage16.iter().position(|w| w.0 == p.0);
                let c = match k {
                    Some(k) if (want_usage_b[k].0, want_usage_b[k].2) == p => {
                        push("columns are byte offsets instead of UTF-16 code units".into(), format!("inlay hint at {:?}, token ends at {:?}", p, (want_usage16[k].0, want_usage16[k].2)));
                        continue;
                    }
                    Some(_) => "not-at-token-end",
                    None => "on-a-line-without-usage",
                };
                push(format!("inlayHint anchor: {}", c), format!("hint at {:?}, usage tokens end at {:?}", p, want_usage16.iter().map(|w| (w.0, w.2)).collect::<Vec<_>>()));
            }
        }
        let annotated = case["dims"].get("annot").is_some();
        for (k, w) in want_usage16.iter().enumerate() {
            if usages[k]["kind"] == "param" && !(annotated && w.0 != def_line0 && usages[k]["line"] != exp["fixtures"][1]["line"]) {
                // unannotated parameter: a hint must exist somewhere on that line
                if !h.iter().any(|x| x.position.line as u64 == w.0) {
                    push("inlayHint: missing for an unannotated parameter".into(), format!("parameter at {:?}", w));
                }
            }
        }
    }
    // ---- undeclared-fixture diagnostics ranges
    let und: Vec<Span> = db.get_undeclared_fixtures(&path).iter().map(|u| ((u.line - 1) as u64, u.start_char as u64, u.end_char as u64)).collect();
    let wund16: Vec<Span> = exp["undeclared"].as_array().unwrap().iter().map(|u| (g(u, "line") - 1, g(u, "start"), g(u, "end"))).collect();
    let wund_b: Vec<Span> = exp["undeclared"].as_array().unwrap().iter().map(|u| (g(u, "line") - 1, g(u, "start_b"), g(u, "end_b"))).collect();
    if und != wund16 {
        if und.len() == wund16.len() {
            for (i, o) in und.iter().enumerate() {
                check_span("undeclared-fixture diagnostic range", *o, wund16[i], wund_b[i], &mut push);
            }
        } else {
            push("undeclared-fixture diagnostic: wrong number of findings".into(), format!("{:?} vs {:?}", und, wund16));
        }
    }
}

pub fn run(rep: &'static Report) {
    let thorough = is_thorough();
    let k = if thorough { 5 } else { 4 };
    let cases = generate("gen_c15.py", k, &[]);
    let findings: Mutex<Vec<Finding>> = Mutex::new(Vec::new());
    let rejected = cases.iter().filter(|c| c.get("cpython_rejects").is_some()).count();
    par_batches(&cases, 32, |i, c| {
        if c.get("expected").is_some() {
            compare_case(i, c, &findings);
        }
    });
    let mut f = findings.into_inner().unwrap();
    let disagreements = f.iter().filter(|x| x.what == "PARSER-DISAGREEMENT").count();
    f.retain(|x| x.what != "PARSER-DISAGREEMENT");
    let counts = report_findings(rep, &cases, f);
    let judged = cases.len() - rejected - disagreements;
    rep.set("evaluations", judged as u64);
    rep.set("programs", cases.len() as u64);
    rep.set("programs_rejected_by_cpython", rejected as u64);
    rep.set("parser_disagreements_outside_verdict", disagreements as u64);
    rep.set("states", judged as u64);
    rep.set("transitions", (judged * 12) as u64);
    rep.set("distinct_nontrivial", cases.iter().filter(|c| c["dims"].as_object().is_some_and(|o| !o.is_empty())).count() as u64);
    rep.set("traces_validated_against_impl", judged as u64);
    rep.set("max_deviations", k as u64);
    rep.set("finding_counts", json!(counts));
    rep.set("exhaustive", true);
    if let Some(c) = cases.iter().find(|c| c["dims"].as_object().is_some_and(|o| o.len() == 2)) {
        rep.sample(json!({"dims": c["dims"], "source": c["source"]}));
    }
    rep.set("rule", "every program of the C15 layout grammar (12 dimensions: class nesting, decorators above, async, signature layout, annotations/defaults, positional-only/keyword-only markers, string-literal form in usefixtures, tabs, CRLF, non-ASCII text before the token, names containing the fixture name, yield) with at most max_deviations off-default dimensions; token positions from CPython ast+tokenize converted to UTF-16; compared with every range in documentSymbol (range, selectionRange), workspace/symbol, codeLens, references, definition, implementation, prepareCallHierarchy, incoming/outgoing calls (fromRanges), inlay-hint anchors and undeclared-fixture diagnostic ranges of the in-process handlers; structural rules on every range (inside the document, start ≤ end, selectionRange ⊆ range, no duplicate entries); disagreements are classified (byte offsets instead of UTF-16 / off by quote or prefix / wrong token / wrong line) and attributed to the minimal failing feature set");
    rep.assume("CPython 3.11 tokenize/ast positions are the reference; multi-line and implicitly concatenated string literals have no single content span and are only required to be listed");
}

pub fn replay(v: &Value) {
    println!("{}", v["source"].as_str().unwrap_or(""));
    println!("dims: {}", v["dims"]);
    println!("recorded detail: {}", v["detail"]);
}
