//! E4 glue: run a Python program-grammar generator (sharded), collect cases with the CPython
//! oracle's expected records, and attribute disagreements to minimal off-default feature sets.

use crate::report::Report;
use serde_json::{json, Value};
use std::collections::BTreeMap;
use std::io::{BufRead, BufReader};
use std::process::{Command, Stdio};
use std::sync::Mutex;

/// Run `python3 /verif/oracle/<script> --k <k> --shard i/n` for n shards in parallel.
pub fn generate(script: &str, k: usize, extra: &[&str]) -> Vec<Value> {
    let n = std::thread::available_parallelism().map_or(4, |n| n.get());
    let out: Mutex<Vec<Value>> = Mutex::new(Vec::new());
    std::thread::scope(|s| {
        for i in 0..n {
            let out = &out;
            s.spawn(move || {
                let mut c = Command::new("python3");
                c.arg(format!("/verif/oracle/{}", script)).arg("--k").arg(k.to_string()).arg("--shard").arg(format!("{}/{}", i, n));
                for e in extra {
                    c.arg(e);
                }
                let mut ch = c.stdout(Stdio::piped()).stderr(Stdio::inherit()).spawn().expect("python3");
                let rd = BufReader::new(ch.stdout.take().unwrap());
                let mut v = Vec::new();
                for l in rd.lines() {
                    let l = l.expect("read");
                    if l.trim().is_empty() {
                        continue;
                    }
                    v.push(serde_json::from_str::<Value>(&l).expect("generator emitted invalid JSON"));
                }
                let st = ch.wait().expect("wait");
                if !st.success() {
                    panic!("MACHINERY: generator {} shard {} failed", script, i);
                }
                out.lock().unwrap().extend(v);
            });
        }
    });
    let mut v = out.into_inner().unwrap();
    v.sort_by_key(|c| c["id"].as_u64().unwrap_or(0));
    v
}

/// One disagreement between the oracle and the implementation.
pub struct Finding {
    pub case_index: usize,
    /// e.g. "fixtures.yield_line: missing"
    pub what: String,
    pub detail: String,
}

pub fn dims_of(case: &Value) -> Vec<String> {
    let mut d: Vec<String> = case["dims"]
        .as_object()
        .map(|o| o.iter().map(|(k, v)| format!("{}={}", k, v.as_str().unwrap_or(""))).collect())
        .unwrap_or_default();
    d.sort();
    d
}

/// Attribute findings to minimal off-default dimension sets (cases are enumerated by increasing
/// number of deviations, so a failure is charged to a failing subset when one exists) and report.
pub fn report_findings(rep: &Report, cases: &[Value], mut findings: Vec<Finding>) -> BTreeMap<String, u64> {
    findings.sort_by_key(|f| (dims_of(&cases[f.case_index]).len(), f.case_index));
    let mut roots: BTreeMap<String, Vec<Vec<String>>> = BTreeMap::new(); // what -> minimal dim sets
    let mut counts: BTreeMap<String, u64> = BTreeMap::new();
    for f in &findings {
        let dims = dims_of(&cases[f.case_index]);
        let sets = roots.entry(f.what.clone()).or_default();
        let root = sets.iter().find(|s| s.iter().all(|x| dims.contains(x))).cloned();
        let root = match root {
            Some(r) => r,
            None => {
                sets.push(dims.clone());
                dims.clone()
            }
        };
        let fp = format!("{} [{}]", f.what, root.join(", "));
        *counts.entry(fp.clone()).or_insert(0) += 1;
        if !rep.count_if_seen(&fp) {
            let c = &cases[f.case_index];
            rep.violation(&fp, &f.detail, || json!({"dims": c["dims"], "source": c["source"], "detail": f.detail}));
        }
    }
    counts
}
