fn main() {
    // export our `getrandom` so that std's weak reference to it binds to the harness definition
    println!("cargo:rustc-link-arg-bins=-Wl,--export-dynamic-symbol=getrandom");
}
