//! E1 — controlled scheduler for real OS threads whose only synchronisation is the (vendored)
//! DashMap shard lock.  The vendored `dashmap/src/lock.rs` calls [`acquire`] before every blocking
//! lock operation and [`release`] after every unlock.  Threads that are not part of an execution
//! (no thread-local context) fall straight through, so the same build serves sequential checks.
//!
//! One execution = N model threads, exactly one of which holds the baton.  Scheduling points are
//! thread start, every lock acquisition and thread end.  At each point the scheduler computes the
//! set of threads whose pending operation is grantable under DashMap 6.1's lock rule
//! (reader-preferring: a reader is admitted whenever no writer *holds* the lock; a writer needs the
//! lock completely free) and picks one — from the replayed choice prefix, else "keep running the
//! current thread, else lowest id".  The scheduler mirrors reader sets / writer per lock, so the
//! real lock never blocks.  "Unfinished threads, none enabled" is a deadlock state.

use std::cell::RefCell;
use std::collections::{BTreeMap, BTreeSet, HashMap};
use std::hash::{Hash, Hasher};
use std::sync::atomic::{AtomicBool, AtomicUsize, Ordering};
use std::sync::{Arc, Condvar, Mutex};
use std::time::{Duration, Instant};

// ---------------------------------------------------------------- global knobs (vendored dashmap)

static SHARD_AMOUNT: AtomicUsize = AtomicUsize::new(0);
static COLLIDE: AtomicBool = AtomicBool::new(false);

/// 0 = stock shard amount.  Must be set before any map of the run is created.
pub fn set_shard_amount(n: usize) {
    SHARD_AMOUNT.store(n, Ordering::SeqCst);
}
pub fn shard_amount_override() -> usize {
    SHARD_AMOUNT.load(Ordering::Relaxed)
}
/// When set, every key of every map lands in shard 0.
pub fn set_collide(b: bool) {
    COLLIDE.store(b, Ordering::SeqCst);
}
#[inline]
pub fn collide() -> bool {
    COLLIDE.load(Ordering::Relaxed)
}

// ---------------------------------------------------------------- types

#[derive(Clone, Copy, PartialEq, Eq, Debug, Hash, PartialOrd, Ord)]
pub enum Mode {
    Shared,
    Exclusive,
}

#[derive(Clone, Copy, PartialEq, Eq, Debug, Hash)]
enum Op {
    Start,
    Acquire(usize, Mode),
}

#[derive(Clone, Copy, PartialEq, Eq, Debug)]
enum Status {
    NotStarted,
    Pending(Op),
    Running,
    Finished,
}

struct Th {
    status: Status,
    held: Vec<(usize, Mode)>,
    steps: usize,
}

#[derive(Default)]
struct LockSt {
    readers: Vec<usize>,
    writer: Option<usize>,
}

/// One scheduling decision.
#[derive(Clone, Debug, PartialEq, Eq)]
pub struct Point {
    /// enabled threads in canonical order (previously running thread first if still enabled)
    pub enabled: Vec<usize>,
    pub chosen_idx: usize,
    /// the thread that was running before this point is still enabled (choosing idx>0 preempts it)
    pub prev_enabled: bool,
    /// (thread, op description) of the chosen thread's granted operation — for divergence checks
    pub granted: String,
}

#[derive(Clone, Debug, PartialEq, Eq)]
pub enum Abort {
    Deadlock(String),
    Horizon(usize),
    Divergence(String),
    Unmodelled(String),
}

#[derive(Clone, Debug, Default)]
pub struct Outcome {
    /// number of scheduling points executed (== trace.len() unless `light`)
    pub points: usize,
    pub trace: Vec<Point>,
    pub abort: Option<Abort>,
    pub preemptions: usize,
    /// panic messages of model threads (other than the scheduler's own abort unwinding)
    pub panics: Vec<String>,
    /// hashes of scheduler states visited (per-thread step counters + lock table)
    pub state_hashes: Vec<u64>,
    /// (held lock, held mode, requested lock, requested mode) by lock *name*
    pub edges: BTreeSet<(String, Mode, String, Mode)>,
}

impl Outcome {
    pub fn choices(&self) -> Vec<usize> {
        self.trace.iter().map(|p| p.chosen_idx).collect()
    }
}

struct St {
    light: bool,
    points: usize,
    threads: Vec<Th>,
    current: Option<usize>,
    prev: Option<usize>,
    locks: HashMap<usize, LockSt>,
    choices: Vec<usize>,
    trace: Vec<Point>,
    preemptions: usize,
    abort: Option<Abort>,
    done: bool,
    horizon: usize,
    state_hashes: Vec<u64>,
    edges: BTreeSet<(String, Mode, String, Mode)>,
    last_progress: Instant,
}

pub struct Exec {
    st: Mutex<St>,
    /// controller's condvar (completion / abort)
    cv: Condvar,
    /// one condvar per model thread: only the chosen thread is woken at a scheduling point
    tcv: Vec<Condvar>,
    names: HashMap<usize, String>,
}

impl Exec {
    fn wake_all(&self) {
        self.cv.notify_all();
        for c in &self.tcv {
            c.notify_all();
        }
    }
}

struct AbortToken;

thread_local! {
    static CTX: RefCell<Option<(Arc<Exec>, usize)>> = const { RefCell::new(None) };
}

fn ctx() -> Option<(Arc<Exec>, usize)> {
    CTX.try_with(|c| c.borrow().clone()).ok().flatten()
}

// ---------------------------------------------------------------- hooks called by vendored dashmap

#[inline]
pub fn acquire(addr: usize, mode: Mode) {
    if let Some((e, t)) = ctx() {
        e.acquire(t, addr, mode);
    }
}

#[inline]
pub fn release(addr: usize, mode: Mode) {
    if let Some((e, t)) = ctx() {
        e.release(t, addr, mode);
    }
}

/// A primitive the scheduler does not model was used from a model thread.
pub fn unmodelled(what: &str) {
    if let Some((e, _t)) = ctx() {
        let mut st = e.st.lock().unwrap();
        if st.abort.is_none() {
            st.abort = Some(Abort::Unmodelled(what.to_string()));
        }
        e.wake_all();
    }
}

/// True when the calling thread is a model thread of a running execution.
pub fn in_model_thread() -> bool {
    ctx().is_some()
}

// ---------------------------------------------------------------- scheduler core

impl Exec {
    fn name(&self, addr: usize) -> String {
        self.names
            .get(&addr)
            .cloned()
            .unwrap_or_else(|| "file-analysis-lock".to_string())
    }

    fn grantable(st: &St, op: Op) -> bool {
        match op {
            Op::Start => true,
            Op::Acquire(a, Mode::Shared) => st.locks.get(&a).is_none_or(|l| l.writer.is_none()),
            Op::Acquire(a, Mode::Exclusive) => st
                .locks
                .get(&a)
                .is_none_or(|l| l.writer.is_none() && l.readers.is_empty()),
        }
    }

    fn describe(&self, st: &St) -> String {
        let mut s = String::new();
        for (i, th) in st.threads.iter().enumerate() {
            let held: Vec<String> = th
                .held
                .iter()
                .map(|(a, m)| format!("{}:{:?}", self.name(*a), m))
                .collect();
            let pend = match th.status {
                Status::Pending(Op::Acquire(a, m)) => format!("wants {}:{:?}", self.name(a), m),
                Status::Pending(Op::Start) => "not started".into(),
                Status::Finished => "finished".into(),
                Status::Running => "running".into(),
                Status::NotStarted => "unregistered".into(),
            };
            s.push_str(&format!("T{} {} holds [{}]; ", i, pend, held.join(",")));
        }
        s
    }

    fn state_hash(&self, st: &St) -> u64 {
        let mut h = std::collections::hash_map::DefaultHasher::new();
        for th in &st.threads {
            th.steps.hash(&mut h);
            matches!(th.status, Status::Finished).hash(&mut h);
        }
        let mut l: Vec<(String, Vec<usize>, Option<usize>)> = st
            .locks
            .iter()
            .filter(|(_, l)| !l.readers.is_empty() || l.writer.is_some())
            .map(|(a, l)| {
                let mut r = l.readers.clone();
                r.sort();
                (self.name(*a), r, l.writer)
            })
            .collect();
        l.sort();
        l.hash(&mut h);
        h.finish()
    }

    /// Called with the state lock held, when the baton holder has reached a point.
    fn decide(&self, st: &mut St) {
        if st.abort.is_some() || st.done {
            self.wake_all();
            return;
        }
        st.last_progress = Instant::now();
        // all threads must be parked at a pending op (or finished)
        if st
            .threads
            .iter()
            .any(|t| matches!(t.status, Status::NotStarted | Status::Running))
        {
            return; // someone has not arrived yet (only at start-up)
        }
        let mut enabled: Vec<usize> = Vec::new();
        for (i, th) in st.threads.iter().enumerate() {
            if let Status::Pending(op) = th.status {
                if Self::grantable(st, op) {
                    enabled.push(i);
                }
            }
        }
        let prev_enabled = st.prev.is_some_and(|p| enabled.contains(&p));
        if prev_enabled {
            let p = st.prev.unwrap();
            enabled.retain(|&x| x != p);
            enabled.insert(0, p);
        }
        if enabled.is_empty() {
            if st
                .threads
                .iter()
                .all(|t| matches!(t.status, Status::Finished))
            {
                st.done = true;
            } else {
                st.abort = Some(Abort::Deadlock(self.describe(st)));
            }
            self.wake_all();
            return;
        }
        let pos = st.points;
        if pos >= st.horizon {
            st.abort = Some(Abort::Horizon(pos));
            self.wake_all();
            return;
        }
        let idx = if pos < st.choices.len() {
            st.choices[pos]
        } else {
            0
        };
        if idx >= enabled.len() {
            st.abort = Some(Abort::Divergence(format!(
                "choice {} at point {} but only {} enabled",
                idx,
                pos,
                enabled.len()
            )));
            self.wake_all();
            return;
        }
        let chosen = enabled[idx];
        if prev_enabled && idx != 0 {
            st.preemptions += 1;
        }
        let op = match st.threads[chosen].status {
            Status::Pending(op) => op,
            _ => unreachable!(),
        };
        let granted = match op {
            Op::Start => format!("T{} start", chosen),
            Op::Acquire(a, m) => format!("T{} {}:{:?}", chosen, self.name(a), m),
        };
        if let Op::Acquire(a, m) = op {
            let l = st.locks.entry(a).or_default();
            match m {
                Mode::Shared => l.readers.push(chosen),
                Mode::Exclusive => l.writer = Some(chosen),
            }
            st.threads[chosen].held.push((a, m));
        }
        st.threads[chosen].status = Status::Running;
        st.current = Some(chosen);
        st.prev = Some(chosen);
        st.points += 1;
        if !st.light {
            st.trace.push(Point {
                enabled,
                chosen_idx: idx,
                prev_enabled,
                granted,
            });
            let h = self.state_hash(st);
            st.state_hashes.push(h);
        }
        self.tcv[chosen].notify_all();
    }

    fn wait_for_baton(&self, t: usize, mut st: std::sync::MutexGuard<'_, St>) {
        loop {
            if st.abort.is_some() {
                drop(st);
                std::panic::resume_unwind(Box::new(AbortToken));
            }
            if st.current == Some(t) && matches!(st.threads[t].status, Status::Running) {
                return;
            }
            st = self.tcv[t].wait(st).unwrap();
        }
    }

    fn thread_start(&self, t: usize) {
        let mut st = self.st.lock().unwrap();
        st.threads[t].status = Status::Pending(Op::Start);
        self.decide(&mut st);
        self.wait_for_baton(t, st);
    }

    fn acquire(&self, t: usize, addr: usize, mode: Mode) {
        if std::thread::panicking() {
            return;
        }
        let mut st = self.st.lock().unwrap();
        if st.abort.is_some() {
            drop(st);
            std::panic::resume_unwind(Box::new(AbortToken));
        }
        let req = self.name(addr);
        let held: Vec<(usize, Mode)> = st.threads[t].held.clone();
        for (a, m) in held {
            st.edges.insert((self.name(a), m, req.clone(), mode));
        }
        st.threads[t].status = Status::Pending(Op::Acquire(addr, mode));
        st.threads[t].steps += 1;
        st.current = None;
        self.decide(&mut st);
        self.wait_for_baton(t, st);
    }

    fn release(&self, t: usize, addr: usize, mode: Mode) {
        let mut st = self.st.lock().unwrap();
        if let Some(l) = st.locks.get_mut(&addr) {
            match mode {
                Mode::Shared => {
                    if let Some(p) = l.readers.iter().position(|&x| x == t) {
                        l.readers.remove(p);
                    }
                }
                Mode::Exclusive => {
                    if l.writer == Some(t) {
                        l.writer = None;
                    }
                }
            }
        }
        if let Some(p) = st.threads[t]
            .held
            .iter()
            .rposition(|&(a, m)| a == addr && m == mode)
        {
            st.threads[t].held.remove(p);
        }
    }

    fn thread_finish(&self, t: usize) {
        let mut st = self.st.lock().unwrap();
        st.threads[t].status = Status::Finished;
        st.threads[t].steps += 1;
        st.current = None;
        self.decide(&mut st);
    }
}

pub struct ExecConfig {
    /// do not record the trace / state hashes (long single-thread sweeps); counts are still kept
    pub light: bool,
    pub choices: Vec<usize>,
    pub horizon: usize,
    pub lock_names: HashMap<usize, String>,
    /// no scheduler progress for this long = unmodelled blocking (machinery error)
    pub watchdog: Duration,
}

pub type Body = Box<dyn FnOnce() + Send + 'static>;

/// Run one execution: spawn one fresh OS thread per body and schedule them.
pub fn run_execution(bodies: Vec<Body>, cfg: ExecConfig) -> Outcome {
    let n = bodies.len();
    let exec = Arc::new(Exec {
        st: Mutex::new(St {
            light: cfg.light,
            points: 0,
            threads: (0..n)
                .map(|_| Th {
                    status: Status::NotStarted,
                    held: Vec::new(),
                    steps: 0,
                })
                .collect(),
            current: None,
            prev: None,
            locks: HashMap::new(),
            choices: cfg.choices,
            trace: Vec::new(),
            preemptions: 0,
            abort: None,
            done: n == 0,
            horizon: cfg.horizon,
            state_hashes: Vec::new(),
            edges: BTreeSet::new(),
            last_progress: Instant::now(),
        }),
        cv: Condvar::new(),
        tcv: (0..n).map(|_| Condvar::new()).collect(),
        names: cfg.lock_names,
    });
    let panics: Arc<Mutex<Vec<String>>> = Arc::new(Mutex::new(Vec::new()));
    let mut handles = Vec::new();
    for (t, body) in bodies.into_iter().enumerate() {
        let exec = exec.clone();
        let panics = panics.clone();
        handles.push(
            std::thread::Builder::new()
                .name(format!("model-{}", t))
                .spawn(move || {
                    CTX.with(|c| *c.borrow_mut() = Some((exec.clone(), t)));
                    let r = std::panic::catch_unwind(std::panic::AssertUnwindSafe(|| {
                        exec.thread_start(t);
                        body();
                    }));
                    if let Err(p) = r {
                        if p.downcast_ref::<AbortToken>().is_none() {
                            let msg = p
                                .downcast_ref::<String>()
                                .cloned()
                                .or_else(|| p.downcast_ref::<&str>().map(|s| s.to_string()))
                                .unwrap_or_else(|| "panic".into());
                            panics.lock().unwrap().push(format!("T{}: {}", t, msg));
                        }
                    }
                    exec.thread_finish(t);
                    CTX.with(|c| *c.borrow_mut() = None);
                })
                .expect("spawn"),
        );
    }
    // wait for completion / abort, with watchdog
    {
        let mut st = exec.st.lock().unwrap();
        loop {
            if st.done || st.abort.is_some() {
                break;
            }
            let (g, _to) = exec
                .cv
                .wait_timeout(st, Duration::from_millis(200))
                .unwrap();
            st = g;
            if !st.done && st.abort.is_none() && st.last_progress.elapsed() > cfg.watchdog {
                st.abort = Some(Abort::Unmodelled(format!(
                    "no scheduler progress for {:?}: {}",
                    cfg.watchdog,
                    exec.describe(&st)
                )));
                exec.wake_all();
                // threads blocked on an unintercepted primitive cannot be unwound: give up on join
                let out = Outcome {
                    points: st.points,
                    trace: st.trace.clone(),
                    abort: st.abort.clone(),
                    preemptions: st.preemptions,
                    panics: panics.lock().unwrap().clone(),
                    state_hashes: st.state_hashes.clone(),
                    edges: st.edges.clone(),
                };
                return out;
            }
        }
    }
    for h in handles {
        let _ = h.join();
    }
    let st = exec.st.lock().unwrap();
    let out = Outcome {
        points: st.points,
        trace: st.trace.clone(),
        abort: st.abort.clone(),
        preemptions: st.preemptions,
        panics: panics.lock().unwrap().clone(),
        state_hashes: st.state_hashes.clone(),
        edges: st.edges.clone(),
    };
    drop(st);
    out
}

// ---------------------------------------------------------------- explorer (iterative context bounding)

#[derive(Default, Debug, Clone)]
pub struct ExploreStats {
    pub schedules: u64,
    pub points: u64,
    pub max_points: usize,
    pub deadlocks: u64,
    pub horizon_overruns: u64,
    pub machinery_errors: Vec<String>,
    pub distinct_states: usize,
    pub edges: BTreeSet<(String, Mode, String, Mode)>,
}

struct Work {
    stack: Vec<(Vec<usize>, Vec<String>)>,
    in_flight: usize,
}

/// Explore every schedule with at most `bound` preemptions.  `run(choices)` must execute one
/// schedule (on a fresh thread, for hash-seed determinism) and return its outcome plus a
/// user result; `on_exec` is called for every execution (serialised).
pub fn explore<R: Send>(
    bound: usize,
    workers: usize,
    max_schedules: u64,
    run: &(dyn Fn(&[usize]) -> (Outcome, R) + Sync),
    on_exec: &(dyn Fn(&Outcome, R) + Sync),
) -> ExploreStats {
    let work = Mutex::new(Work {
        stack: vec![(Vec::new(), Vec::new())],
        in_flight: 0,
    });
    let cv = Condvar::new();
    let stats = Mutex::new(ExploreStats::default());
    let states: Mutex<std::collections::HashSet<u64>> = Mutex::new(Default::default());
    let stop = AtomicBool::new(false);
    std::thread::scope(|s| {
        for _ in 0..workers.max(1) {
            s.spawn(|| loop {
                let item = {
                    let mut w = work.lock().unwrap();
                    loop {
                        if stop.load(Ordering::SeqCst) {
                            break None;
                        }
                        if let Some(it) = w.stack.pop() {
                            w.in_flight += 1;
                            break Some(it);
                        }
                        if w.in_flight == 0 {
                            break None;
                        }
                        w = cv.wait(w).unwrap();
                    }
                };
                let Some((prefix, expect)) = item else {
                    cv.notify_all();
                    return;
                };
                let (out, r) = run(&prefix);
                // replay-divergence check: the granted-op sequence of the prefix must be identical
                let mut children: Vec<(Vec<usize>, Vec<String>)> = Vec::new();
                let mut err: Option<String> = None;
                for (i, e) in expect.iter().enumerate() {
                    if out.trace.get(i).map(|p| &p.granted) != Some(e) {
                        err = Some(format!(
                            "replay divergence at point {}: expected {:?}, got {:?} (prefix {:?})",
                            i,
                            e,
                            out.trace.get(i).map(|p| p.granted.clone()),
                            prefix
                        ));
                        break;
                    }
                }
                match &out.abort {
                    Some(Abort::Divergence(m)) | Some(Abort::Unmodelled(m)) => {
                        err = Some(format!("{} (prefix {:?})", m, prefix))
                    }
                    _ => {}
                }
                if err.is_none() {
                    let choices = out.choices();
                    let mut pre = 0usize;
                    for i in 0..out.trace.len() {
                        let p = &out.trace[i];
                        if i >= prefix.len() {
                            for alt in 1..p.enabled.len() {
                                let cost = pre + usize::from(p.prev_enabled);
                                if cost <= bound {
                                    let mut c = choices[..i].to_vec();
                                    c.push(alt);
                                    let e: Vec<String> =
                                        out.trace[..i].iter().map(|q| q.granted.clone()).collect();
                                    children.push((c, e));
                                }
                            }
                        }
                        if p.prev_enabled && p.chosen_idx != 0 {
                            pre += 1;
                        }
                    }
                }
                {
                    let mut st = stats.lock().unwrap();
                    st.schedules += 1;
                    st.points += out.trace.len() as u64;
                    st.max_points = st.max_points.max(out.trace.len());
                    match &out.abort {
                        Some(Abort::Deadlock(_)) => st.deadlocks += 1,
                        Some(Abort::Horizon(_)) => st.horizon_overruns += 1,
                        _ => {}
                    }
                    if let Some(e) = err {
                        st.machinery_errors.push(e);
                        stop.store(true, Ordering::SeqCst);
                    }
                    for e in &out.edges {
                        st.edges.insert(e.clone());
                    }
                    if st.schedules >= max_schedules {
                        stop.store(true, Ordering::SeqCst);
                    }
                    let mut ss = states.lock().unwrap();
                    for h in &out.state_hashes {
                        ss.insert(*h);
                    }
                    on_exec(&out, r);
                }
                let mut w = work.lock().unwrap();
                w.in_flight -= 1;
                w.stack.extend(children);
                cv.notify_all();
            });
        }
    });
    let mut st = stats.into_inner().unwrap();
    st.distinct_states = states.into_inner().unwrap().len();
    let w = work.into_inner().unwrap();
    if !w.stack.is_empty() && st.machinery_errors.is_empty() {
        st.machinery_errors.push(format!(
            "schedule cap {} hit with {} prefixes unexplored",
            max_schedules,
            w.stack.len()
        ));
    }
    st
}

/// Pretty-print a trace (for replay files).
pub fn trace_to_strings(o: &Outcome) -> Vec<String> {
    o.trace
        .iter()
        .map(|p| {
            format!(
                "{}  [enabled {:?} choice {}{}]",
                p.granted,
                p.enabled,
                p.chosen_idx,
                if p.prev_enabled && p.chosen_idx != 0 {
                    " PREEMPT"
                } else {
                    ""
                }
            )
        })
        .collect()
}

pub type LockNames = BTreeMap<usize, String>;
