#!/bin/bash
# tools/seed_reverify.sh <seed-name> — confirm a (ported) seed again on /repo's current HEAD in a scratch
# worktree: suite passes with the patch, demonstration fails with it and passes without it. Appends to verify.log.
n=$1; wt=/tmp/wtrv-$n
git -C /repo worktree add --detach $wt HEAD -q || exit 2
cd $wt
demo=/verif/seeded/$n/seeded_demo.rs; [ -f /verif/seeded/$n/seeded_demo.ported.rs ] && demo=/verif/seeded/$n/seeded_demo.ported.rs
git apply /verif/seeded/$n/patch.diff || { echo "ported patch does not apply"; git -C /repo worktree remove --force $wt; exit 1; }
cargo test --workspace --no-fail-fast --offline -j 8 > /tmp/rv-$n-suite.log 2>&1
cp $demo tests/seeded_demo.rs
cargo test --offline -j 8 --test seeded_demo > /tmp/rv-$n-with.log 2>&1
git checkout -q -- src
cargo test --offline -j 8 --test seeded_demo > /tmp/rv-$n-without.log 2>&1
{
 echo "== re-verified on /repo HEAD $(git -C /repo rev-parse --short HEAD) (patch.diff as it is now):"
 echo "   suite with patch: $(grep -c '^test result: ok' /tmp/rv-$n-suite.log) targets ok, $(grep -c '^test result: FAILED' /tmp/rv-$n-suite.log) failed"
 echo "   demo with patch:    $(grep -E '^test result' /tmp/rv-$n-with.log | head -1)"
 echo "   demo without patch: $(grep -E '^test result' /tmp/rv-$n-without.log | head -1)"
} | tee -a /verif/seeded/$n/verify.log
cd /verif; git -C /repo worktree remove --force $wt; git -C /repo worktree prune
