#!/bin/bash
# tools/seed_verify.sh <seed-name> <worktree>   — confirm a seeded change independently:
#   with the patch: whole existing suite passes, the demonstration fails; without it: demonstration passes.
# Result is written to /verif/seeded/<seed-name>/ (patch.diff, demo, verify.log).
set -u
name=$1; wt=$2
cd "$wt" || exit 2
out=/verif/seeded/$name; mkdir -p $out
cp patch.diff $out/patch.diff; cp tests/seeded_demo.rs $out/seeded_demo.rs; cp NOTES.md $out/NOTES.agent.md 2>/dev/null
git checkout -q -- src
git apply --check patch.diff || { echo "patch does not apply" > $out/verify.log; exit 1; }
git apply patch.diff
cargo test --workspace --no-fail-fast --offline -j 6 > /tmp/seed-$name-with.log 2>&1
git checkout -q -- src
cargo test --offline -j 6 --test seeded_demo > /tmp/seed-$name-without.log 2>&1
wo=$?
{
 echo "== with patch (whole suite + demo):"
 grep -E "^test result|Running|^test .*FAILED" /tmp/seed-$name-with.log
 echo "== without patch (demo only): exit $wo"
 grep -E "^test result" /tmp/seed-$name-without.log
} > $out/verify.log
cat $out/verify.log
