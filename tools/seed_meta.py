#!/usr/bin/env python3
"""Writes /verif/seeded/<id>/meta.json from the table below (kept by hand)."""
import json, os
T = {
 "C01": dict(property="C01", summary="import branch of resolution gated by 'no conftest on the chain defines the name directly': a farther direct definition switches off a nearer conftest's import", needs="nearer conftest provides the name only via star/explicit/pytest_plugins import AND a farther conftest defines it directly; usage at or below the nearer level", caught_by=["C01","C05"]),
 "C02": dict(property="C02", summary="per-file memo in find_references_for_definition filled by ordinary usages and consulted for the self-named parameter", needs="an ordinary usage of the name written ABOVE the self-requesting override `def fx(fx)` in the same module, with a definition further out", caught_by=["C02","C04"], strengthened="C02 chain generator gained 'definition written below its users' and a dependent fixture above every conftest link (was missed before)"),
 "C04": dict(property="C04", summary="reverse-index cleanup skipped when the file had no file_cache entry", needs="analyze F, close F (cleanup_file_cache) or evict it, analyze F again, then query references/code lens/incoming calls", caught_by=["C04"], strengthened="history model used by C04 gained didClose actions (was missed before)"),
 "C05": dict(property="C05", summary="conftest walk split into a direct-definition pass and an import pass", needs="nearer conftest imports the name, farther conftest defines it directly", caught_by=["C05","C01"]),
 "C06": dict(property="C06", summary="cleanup_definitions_for_file removes only the first old definition of a name", needs="a file defining the same fixture name twice, then re-analysed", caught_by=["C06","C04"], strengthened="C06 version tables gained 'same name defined twice' versions (was missed before)"),
 "C16": dict(property="C16", summary="cycles de-duplicated by attachment fixture: later cycles through the same hub are dropped (agent's original patch ported to the repaired cycle search; original kept as patch.original-agent.diff)", needs="two cycles sharing their smallest member, e.g. a(a? no) a(b,c), b(a), c(a)", caught_by=["C16"], strengthened="C16 oracle now requires every definition on a cycle to be a member of a reported cycle (SCC-level coverage missed it); quick tier gained 3-distinct-name graphs with 2 dependencies"),
 "C03": dict(property="C03", summary="operator-precedence slip in is_fixture_decorator: any `pytest.<attr>` decorator counts as a fixture decorator", needs="a `@pytest.hookimpl` / `@pytest.fixtures` style decorator or `x = pytest.param(...)(f)` assignment", caught_by=[]),
 "C07": dict(property="C07", summary="definitions_version bumped once per re-analysis instead of per recorded definition: the scan's no-cleanup path never invalidates version-keyed caches", needs="open a file, run a cached query, let the scan path analyse files contributing fixtures, repeat the query", caught_by=[]),
 "C08": dict(property="C08", summary="imported-fixture lookup picks the last *registered* candidate among the import targets instead of following import order", needs="a conftest importing from two modules that define the same name; the two modules analysed in different orders", caught_by=["C08"]),
 "C09": dict(property="C09", summary="cleanup_definitions_for_file batches unconditional remove(name) after the loop instead of remove_if(is_empty)", needs="A's cleanup empties definitions[n], B pushes its definition of n, A's batched remove destroys it (one specific interleaving of three map operations)", caught_by=["C09"]),
}
for k, v in T.items():
    d = f"/verif/seeded/{k}"
    if not os.path.isdir(d): continue
    v = dict(v)
    v["what_i_ran"] = "tools/seed_verify.sh (patch applied in a scratch worktree: whole existing suite passes, tests/seeded_demo.rs fails; reverted: demo passes) then tools/seed_check.sh (patch applied to /repo, listed checks run at quick tier, /repo reset)"
    v["verify_log"] = "verify.log"
    json.dump(v, open(f"{d}/meta.json", "w"), indent=1)
print("ok")
