#!/bin/bash
# tools/seed_regress.sh [seed-name...] — for every kept seed: apply its patch to /repo, run the first check
# listed in its meta.json (quick tier), expect exit 1; report seeds whose patch no longer applies or
# that are no longer caught. /repo is reset after each seed. Takes about an hour for all seeds.
cd /verif
names=${@:-$(ls seeded)}
for n in $names; do
  c=$(python3 -c "import json;print(json.load(open('/verif/seeded/$n/meta.json'))['caught_by'][0])")
  tools/seed_check.sh $n $c > /tmp/seed-regress-$n.out 2>&1
  git -C /repo reset -q --hard HEAD
  out=$(grep -m1 -E "^seed=|DOES NOT APPLY" /tmp/seed-regress-$n.out)
  case "$out" in
    *"exit=1"*) echo "OK     $n caught by $c";;
    *"DOES NOT APPLY"*) echo "NOAPPLY $n";;
    *) echo "MISSED $n ($out)";;
  esac
done
