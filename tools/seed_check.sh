#!/bin/bash
# tools/seed_check.sh <seed-name> <check-id>...  — apply a seeded change to /repo, run the checks (quick), undo.
name=$1; shift
cd /verif
git -C /repo diff --quiet || { echo "/repo dirty"; exit 2; }
git -C /repo apply --3way /verif/seeded/$name/patch.diff 2>/tmp/apply.err || git -C /repo apply /verif/seeded/$name/patch.diff || { echo "PATCH DOES NOT APPLY"; cat /tmp/apply.err; git -C /repo reset -q --hard HEAD; exit 2; }
for c in "$@"; do
  # the evidence file describes the unchanged tree: keep it out of the way of this run
  [ -f evidence/$c.json ] && cp evidence/$c.json /tmp/seedcheck-evidence-$c.json
  ./run $c ${TIER:-quick} > /tmp/seedcheck-$name-$c.log 2>&1; rc=$?
  if [ -f /tmp/seedcheck-evidence-$c.json ]; then mv /tmp/seedcheck-evidence-$c.json evidence/$c.json; else rm -f evidence/$c.json; fi
  echo "seed=$name check=$c exit=$rc violations=$(grep -c '^VIOLATION' /tmp/seedcheck-$name-$c.log)"
  grep -A2 '^VIOLATION' /tmp/seedcheck-$name-$c.log | head -9
done
git -C /repo reset -q --hard HEAD
git -C /repo status --short | head -3
