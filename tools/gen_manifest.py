#!/usr/bin/env python3
"""Regenerates /verif/MANIFEST.json from the table below (keeps it schema-valid)."""
import json, subprocess
props = [json.loads(l) for l in open('/verif/properties.jsonl')]
hook_commits = subprocess.run(['git','-C','/repo','log','--format=%H %s','--grep=^verif hook'],capture_output=True,text=True).stdout.strip().splitlines()
CHECKS = {
 "C01": dict(engine="E3", technique="bounded-exhaustive enumeration of workspace layouts x registration orders x cursor columns on the real resolver, against a reference model of pytest lookup",
   text="Every shadowing layout up to depth 2 (quick) / 3 (thorough) — 7 conftest provider kinds per ancestor level, 0-2 definitions in the using file, all 32 subsets of 5 distractors — restricted to at most 4 / 5 files defining the name, with ALL permutations of their analysis order; in each database every usage site (test parameter, fixture parameter, usefixtures on function and class, pytestmark, indirect parametrize) is queried at every column from one before to one after the token and compared with the PytestLookup reference model; the in-process textDocument/definition handler is compared with the library answer. Exhaustive within these bounds, nothing sampled.",
   note="Trusted: the reference model in harness/src/ws.rs, the renderer, virtual paths under /nonexistent (canonicalize fails identically). Not covered: layouts deeper than 3 levels, more than 5 same-named definers, two providers of the name in one conftest.", ref="4/C01"),

 "C02": dict(engine="E3", technique="bounded-exhaustive enumeration of override chains x registration orders x every cursor column of def fx(fx) lines, on the real resolver and in-process handlers, against the reference model",
   text="Every override chain = ordered subset (length 1..3 quick / 1..5 thorough) of the 6 visibility positions [same file, conftest per level nearest→root (depth 3), workspace plugin, third-party], each conftest link own or star-imported, each same-file/conftest link requesting its own name or not, same-file link above or below its users, ALL permutations of the analysis order of the defining files; on every `def fx(fx):` line every column is queried for go-to-definition, references and prepareCallHierarchy and compared with the reference model (parameter → next link outward, name → this link, elsewhere → nothing); every usage site × column as in C01.",
   note="Trusted: reference model (ws.rs). Plugin/third-party links never request fx themselves; references from a self-named parameter are judged only when an outer link exists; multi-line signatures are outside the quantifier.", ref="4/C02"),
 "C04": dict(engine="E3+E2+E5", technique="model-free exhaustive cross-check of references vs go-to-definition on every index reached by the layout/chain enumerations and by explicit-state BFS of edit/close histories; CLI counts via the real binary",
   text="In every database of the C01 layout and C02 chain enumerations (all registration orders within the definer bound) and in every state of the edit-history graph (stateright BFS, depth 3 quick / 4 thorough, didOpen/didChange/didClose actions) every (definition, usage) pair is checked: U ∈ references(D) ⇔ go-to-definition(U)=D at every column; no duplicates; unresolved usages unlisted; reverse index mirrors usages; code-lens count, incoming-calls count and the real binary's `fixtures list` count equal |references(D)|.",
   note="No reference model. Usages inside documents whose current text is unparsable or closed (virtual paths) are not queried. CLI comparison on a fixed evenly spaced subset of project-only layouts materialised on tmpfs.", ref="4/C04"),
 "C05": dict(engine="E3", technique="model-free exhaustive cross-feature comparison (7 in-process handlers) at every usage position of every enumerated database",
   text="Every database of the layout enumeration (definitions carry distinct return types, docstrings, yield lines) and the chain enumeration, all registration orders within the definer bound; at every recorded usage position, with D = go-to-definition: hover, implementation, prepareCallHierarchy, outgoing calls vs parameter resolution, inlay hint, completion entry and the per-file available-fixtures entry must all denote D.",
   note="Pure comparison between real handler/library calls; completion is asked in a usefixtures/pytestmark context of the same file so that no name is filtered.", ref="4/C05"),
 "C06": dict(engine="E2", technique="explicit-state BFS (stateright) over edit histories with a real FixtureDatabase per state; oracle = freshly built server, evaluated on every transition",
   text="All histories of full-text versions (6-7 versions per file incl. rename, shift, removal, syntax break, identical re-send) over 3 files (quick, depth 3) / 4 files incl. an imported helper (thorough, depth 4); after EVERY transition the live index equals, as multisets, a fresh server fed the last valid contents; the undeclared findings of the last-changed document equal fresh analysis; all answers equal the fresh server's for some feed order.",
   note="State identity = per-file (current, last valid) versions + depth; merging is sound because the oracle is evaluated per transition before merging. The existential over feed orders deliberately excludes registration-order dependence (C08). Queries are not asked inside currently-invalid documents.", ref="4/C06"), "C16": dict(engine="E3", technique="bounded-exhaustive enumeration of small dependency graphs x scopes x registration orders (+ hash-seed sweep) on the real diagnostics, against a reference graph over definitions",
   text="Definition slots = 3 names × 3 files (root conftest, sub conftest, test module); every set of ≤3 slots with every dependency list (≤2 of {a,b,c,unknown}; thorough also 4 slots with ≤1) and every scope vector (all 5 scopes for ≤2 slots, subsets for 3), under all 6 analysis orders and a sweep of hash seeds; the reference graph resolves each dependency from the depending fixture's file by PytestLookup: every reported path must be a closed chain of definitions, every cyclic SCC and every definition on a cycle must be reported, overrides with a parent are not cycles, scope mismatches are exactly the narrower resolved dependencies, and reports are identical across orders, seeds and recomputation.",
   note="Hash seeds are a labelled sweep (2^128 keys cannot be enumerated). Trusted: reference model, getrandom shim pinning RandomState per fresh thread.", ref="4/C16"), "C08": dict(engine="E3+E1 link", technique="exhaustive enumeration of all permutations of the per-file analysis order (both analysis paths) on workspaces with colliding names; hash-seed sweep; real rayon scan as conformance",
   text="For every workspace with colliding fixture names (hand-written plugin / third-party / double-import duplicates and cross-file cycles, every C01 layout with ≥2 defining files, every C02 chain with ≥2 links; ≤5 files quick, ≤6 thorough) EVERY permutation of the per-file analysis order is run through analyze_file and through the scan's no-cleanup path; all answers (go-to-definition at every usage, references of every definition, available fixtures, cycles, scope mismatches, unused list, workspace and document symbols) must be identical. Hash seeds are swept (labelled sweep); the real scan_workspace runs on materialised trees with rayon pools of 1, 2 and 16 threads as conformance.",
   note="Thread schedule is reduced to analysis order by C09 (every interleaving is index-equivalent to a sequential order). Undeclared-fixture findings are excluded (analysis-time by design, judged by C06). Symbols are compared as multisets.", ref="4/C08"),
 "C09": dict(engine="E1", technique="stateless model checking of the real code: exhaustive schedule exploration (iterative preemption bounding) under a controlled scheduler hooked into DashMap's shard locks",
   text="6 (quick) / 10 (thorough) scenarios of 2–3 threads analysing distinct files that share fixture names (incl. 'A loses its last definition while B adds one', scan workers via the no-cleanup path, editor vs scan worker, non-initial pre-states), under two key placements (all keys of a map in one shard; 2 shards by hash): EVERY schedule with ≤2 (2 threads; thorough ≤3) / ≤1 (3 threads; thorough ≤2) preemptions, scheduling points = every shard-lock acquisition of the real analyze_file / analyze_file_fresh. At quiescence the index must equal the result of some sequential order and satisfy the structural invariants; deadlocks and horizon overruns are violations.",
   note="Trusted: vendored dashmap 6.1.0 with 4 hook sites in lock.rs, the scheduler's lock model (reader-preferring RwLock, checked against the source), getrandom shim. Replays of a prefix must reproduce the identical granted-operation sequence or the run is a machinery error. Not covered: interleavings inside std::sync::Mutex sections (none contain DashMap calls here), more than 3 threads, higher preemption bounds.", ref="4/C09"),
}
m = {
 "version": 1,
 "setup_cmd": "./run setup",
 "hooks": {"guard": "pytest_language_server_verif",
           "enable": "rustflags --cfg pytest_language_server_verif in /verif/harness/.cargo/config.toml; the harness depends on /repo by path and patches dashmap with /verif/vendor/dashmap",
           "baseline_off_cmd": "cd /repo && cargo test --workspace --no-fail-fast --offline",
           "source_commits": [l.split()[0] for l in hook_commits],
           "add_only": True},
 "engines": [
  {"name":"E1 vsched","path":"harness/vsched + vendor/dashmap","serves_properties":["C09","C10","C12"],"kind_free_text":"controlled scheduler over real OS threads; scheduling points = DashMap shard-lock acquisitions (vendored dashmap 6.1.0 with hooks); stateless DFS with iterative preemption bounding"},
  {"name":"E2 stateright","path":"harness/src/checks","serves_properties":["C06","C07","C19"],"kind_free_text":"explicit-state BFS (stateright 0.31) whose states carry a real FixtureDatabase; oracle evaluated on every generated transition"},
  {"name":"E3 enumerators","path":"harness/src","serves_properties":["C01","C02","C04","C05","C08","C11","C12","C13","C14","C16","C20"],"kind_free_text":"bounded-exhaustive enumeration of inputs (layouts, graphs, permutations, trees) on the real code with reference models"},
  {"name":"E4 CPython oracles","path":"oracle","serves_properties":["C03","C15","C17","C18"],"kind_free_text":"deviation-bounded program grammars; expected records from CPython ast/tokenize"},
  {"name":"E5 real binary","path":"harness/src/lspio.rs","serves_properties":["C10","C11","C13","C19","C20"],"kind_free_text":"JSON-RPC stdio client and CLI runner for the unmodified server binary"},
 ],
 "checks": [], "not_applicable": [],
 "notes": "All commands run from /verif. ./run rebuilds the harness (cfg on, patched dashmap) and, where needed, the unmodified server binary from /repo's working tree before every check.",
}
for p in props:
    i = p["id"]
    if i in CHECKS:
        c = CHECKS[i]
        m["checks"].append({"property_id": i, "quick_cmd": f"./run {i} quick", "thorough_cmd": f"./run {i} thorough",
          "evidence_file": f"/verif/evidence/{i}.json", "replay_cmd_template": f"./run {i} --replay {{path}}",
          "engine": c["engine"], "technique": c["technique"],
          "level_claimed": {"category": "model_checking", "text": c["text"], "design_ref": c["ref"]},
          "level_note": c["note"]})
    else:
        m["not_applicable"].append({"property_id": i, "reason": "check not built yet (work in progress; planned decision procedure in DESIGN.md section 4)"})
json.dump(m, open('/verif/MANIFEST.json','w'), indent=1)
import jsonschema
jsonschema.validate(m, json.load(open('/root/.vp/MANIFEST.schema.json')))
print("MANIFEST ok:", len(m["checks"]), "checks,", len(m["not_applicable"]), "not_applicable")
