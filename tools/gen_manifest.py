#!/usr/bin/env python3
"""Regenerates /verif/MANIFEST.json from the table below (keeps it schema-valid)."""
import json, subprocess
props = [json.loads(l) for l in open('/verif/properties.jsonl')]
hook_commits = subprocess.run(['git','-C','/repo','log','--format=%H %s','--grep=^verif hook'],capture_output=True,text=True).stdout.strip().splitlines()
CHECKS = {
 "C01": dict(engine="E3", technique="bounded-exhaustive enumeration of workspace layouts x registration orders x cursor columns on the real resolver, against a reference model of pytest lookup",
   text="Every shadowing layout up to depth 2 (quick) / 3 (thorough) — 7 conftest provider kinds per ancestor level, 0-2 definitions in the using file, all 32 subsets of 5 distractors — restricted to at most 4 / 5 files defining the name, with ALL permutations of their analysis order; in each database every usage site (test parameter, fixture parameter, usefixtures on function and class, pytestmark, indirect parametrize) is queried at every column from one before to one after the token and compared with the PytestLookup reference model; the in-process textDocument/definition handler is compared with the library answer. Exhaustive within these bounds, nothing sampled.",
   note="Trusted: the reference model in harness/src/ws.rs, the renderer, virtual paths under /nonexistent (canonicalize fails identically). Not covered: layouts deeper than 3 levels, more than 5 same-named definers, two providers of the name in one conftest.", ref="4/C01"),
}
m = {
 "version": 1,
 "setup_cmd": "./run setup",
 "hooks": {"guard": "pytest_language_server_verif",
           "enable": "rustflags --cfg pytest_language_server_verif in /verif/harness/.cargo/config.toml; the harness depends on /repo by path and patches dashmap with /verif/vendor/dashmap",
           "baseline_off_cmd": "cd /repo && cargo test --workspace --no-fail-fast --offline",
           "source_commits": [l.split()[0] for l in hook_commits],
           "add_only": True},
 "engines": [
  {"name":"E1 vsched","path":"harness/vsched + vendor/dashmap","serves_properties":["C09","C10","C12"],"kind_free_text":"controlled scheduler over real OS threads; scheduling points = DashMap shard-lock acquisitions (vendored dashmap 6.1.0 with hooks); stateless DFS with iterative preemption bounding"},
  {"name":"E2 stateright","path":"harness/src/checks","serves_properties":["C06","C07","C19"],"kind_free_text":"explicit-state BFS (stateright 0.31) whose states carry a real FixtureDatabase; oracle evaluated on every generated transition"},
  {"name":"E3 enumerators","path":"harness/src","serves_properties":["C01","C02","C04","C05","C08","C11","C12","C13","C14","C16","C20"],"kind_free_text":"bounded-exhaustive enumeration of inputs (layouts, graphs, permutations, trees) on the real code with reference models"},
  {"name":"E4 CPython oracles","path":"oracle","serves_properties":["C03","C15","C17","C18"],"kind_free_text":"deviation-bounded program grammars; expected records from CPython ast/tokenize"},
  {"name":"E5 real binary","path":"harness/src/lspio.rs","serves_properties":["C10","C11","C13","C19","C20"],"kind_free_text":"JSON-RPC stdio client and CLI runner for the unmodified server binary"},
 ],
 "checks": [], "not_applicable": [],
 "notes": "All commands run from /verif. ./run rebuilds the harness (cfg on, patched dashmap) and, where needed, the unmodified server binary from /repo's working tree before every check.",
}
for p in props:
    i = p["id"]
    if i in CHECKS:
        c = CHECKS[i]
        m["checks"].append({"property_id": i, "quick_cmd": f"./run {i} quick", "thorough_cmd": f"./run {i} thorough",
          "evidence_file": f"/verif/evidence/{i}.json", "replay_cmd_template": f"./run {i} --replay {{path}}",
          "engine": c["engine"], "technique": c["technique"],
          "level_claimed": {"category": "model_checking", "text": c["text"], "design_ref": c["ref"]},
          "level_note": c["note"]})
    else:
        m["not_applicable"].append({"property_id": i, "reason": "check not built yet (work in progress; planned decision procedure in DESIGN.md section 4)"})
json.dump(m, open('/verif/MANIFEST.json','w'), indent=1)
import jsonschema
jsonschema.validate(m, json.load(open('/root/.vp/MANIFEST.schema.json')))
print("MANIFEST ok:", len(m["checks"]), "checks,", len(m["not_applicable"]), "not_applicable")
