#!/bin/bash
# tools/run_all.sh [quick|thorough]  — run every registered check, print one line each
tier=${1:-quick}
cd /verif
for c in $(python3 -c "import json;print(' '.join(x['property_id'] for x in json.load(open('MANIFEST.json'))['checks']))"); do
  s=$(date +%s)
  ./run $c $tier > /tmp/runall-$c.log 2>&1; rc=$?
  e=$(date +%s)
  echo "$c exit=$rc $((e-s))s $(grep -c '^VIOLATION' /tmp/runall-$c.log) violations, $(grep -c '^KNOWN-FINDING' /tmp/runall-$c.log) known"
done
